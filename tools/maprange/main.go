// maprange lists every range-over-map statement of the package in the current directory
// (the harness, built in a buildsim scratch dir): Go randomises map iteration, so each one must
// be order-insensitive or iterate sorted keys for a run to be a pure function of its seed.
package main

import (
	"fmt"
	"go/ast"
	"go/types"
	"os"

	"golang.org/x/tools/go/packages"
)

func main() {
	cfg := &packages.Config{Mode: packages.NeedSyntax | packages.NeedTypes | packages.NeedTypesInfo | packages.NeedFiles | packages.NeedName, Tests: true, BuildFlags: []string{"-tags", "verif"}}
	pkgs, err := packages.Load(cfg, ".")
	if err != nil {
		fmt.Println(err)
		os.Exit(2)
	}
	seen := map[string]bool{}
	for _, p := range pkgs {
		for _, f := range p.Syntax {
			ast.Inspect(f, func(n ast.Node) bool {
				rs, ok := n.(*ast.RangeStmt)
				if !ok {
					return true
				}
				t := p.TypesInfo.TypeOf(rs.X)
				if t == nil {
					return true
				}
				if _, isMap := t.Underlying().(*types.Map); isMap {
					pos := p.Fset.Position(rs.Pos())
					k := fmt.Sprintf("%s:%d", pos.Filename, pos.Line)
					if !seen[k] {
						seen[k] = true
						fmt.Printf("%s\t%s\n", k, types.ExprString(rs.X))
					}
				}
				return true
			})
		}
	}
}
