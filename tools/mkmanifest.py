#!/usr/bin/env python3
"""Regenerates /verif/MANIFEST.json from the table below (kept in one place so that
checks, levels and not_applicable never drift apart)."""
import json, subprocess

CHECKS = {
 # id: (technique, level text, note, design section)
 "C01": ("deterministic simulation: seeded multi-node runs (slot scheduler, SimNet, truncation knob) + big-integer reference ledger over declared ancestry",
         "Seeded exploration of proposal/gossip/truncation histories on 1-4 real nodes; every newly confirmed transfer is re-judged with math/big over its declared ancestry plus the checkpoint, and tips the reference judges overdrawn must be dropped after a proposal examined them. Sampling, not proof.",
         "reference ledger and archive are harness code; trusted-node bypass and synced baselines are exempt as the statement says", "5 C01"),
 "C02": ("deterministic simulation: conflicting spends through different nodes under partitions/latency + big-integer conservation over the confirmed union",
         "Seeded exploration biased towards conflicting spends issued within one latency window or across a partition; conservation and no-overdraw are recomputed per wallet over confirmed vertices at quiescence, and reported balances must sum to the supply on single-tip ledgers. The merge double-spend is a recorded known finding.",
         "runs that use a trusted sealing node skip the oracle, as the statement does", "5 C02"),
 "C03": ("deterministic simulation: duplicate/concurrent proposals and gossip (fine-mode interleavings) + multiset/index bijection oracle on snapshots",
         "Seeded exploration of repeated, concurrent and cross-node offers of the same transaction, before and after truncation; after every step the multiset of transaction hashes over live+stored vertices and the index<->holder bijection are checked.",
         "snapshots are taken under the ledger lock through the verif hook", "5 C03"),
 "C05": ("deterministic simulation (history clause) + seeded purse-bank sequences and boundary product (Supply, Drain, Transfer and the constructor New) against math/big (API clause; input generation, labelled as such)",
         "History clause: boundary and non-canonical amounts offered through every entry point of simulated nodes; no non-canonical amount may appear in any snapshot and all balances equal the big-integer reference. API clause: the product of boundary values for single operations (sliced by seed) and seeded transfer sequences on a bank of purses compared with an integer bank.",
         "the API clause is a pure function of its inputs: no schedule or fault is involved there", "5 C05"),
 "C06": ("deterministic simulation: balance probes on evolving multi-tip/truncated ledgers bracketed by equal snapshots + reference set {f(tip)}",
         "Every balance answer (all wallets, node wallets, a stranger) is compared with the set of exact values checkpoint+in-out over each tip's live ancestry; errors are accepted only where the reference is negative or not representable; queries must not change the ledger; nodes with equal ledgers must agree.",
         "the checkpoint term is the node's stored funds (their correctness is C07)", "5 C06"),
 "C07": ("deterministic simulation with the truncateDiff knob lowered per run: synchronous truncation at seeded points and the real weight-triggered truncation loop (threshold knob), repeated, racing with proposals and gossip; free-text receiver addresses; before/after differential plus always-on snapshot invariants",
         "Truncation is triggered through the hook and, in a third of the truncating runs, by the real runTruncate loop (half of those without any hook trigger) on ledgers of 5-60 vertices with truncateDiff 2-12: nothing confirmed may be lost or change content, by-hash reads must return identical content, the moved set must be ancestor-closed, checkpoint funds must equal the net flow of the stored vertices, balances must not change, re-submission must be refused without effect, a failed truncation must change nothing.",
         "clauses that assume isolation are judged only when nothing else was admitted in the window; ledgers already overdrawn by the C02 finding or the trusted exemption are excluded from the funds/balance clauses", "5 C07"),
 "C08": ("deterministic simulation, fine mode: seeded interleavings of walker vs consumer, counting contexts cancelling after k ancestors, stream consumers racing writers, bursts of concurrent admissions against the truncation loop with a shortened signal channel (knob), fresh nodes joining through the real sync client with the loader and stream buffers scaled down (knob chan_cap) and a vertex the loader refuses mid-stream; bounded-progress, leaked-task and fatal-log oracle",
         "Every operation must return within a simulated-time budget once faults stop, probe operations must still complete afterwards, and no task created inside the graph walker may be left parked. Lock acquisition is simulated (TryLock + parking, pending-writer model), so a wedge is a countable condition instead of a hang.",
         "lock model reproduces mutual exclusion and writer preference, not Go's starvation mode", "5 C08"),
 "C09": ("deterministic simulation: structural invariants of every snapshot of every run (acyclicity, edges vs declared parents, recomputed digests and signatures, weight rule)",
         "After every step on every node the snapshot must be a well-formed DAG of self-authenticating vertices; vertices created by a node are judged against the snapshot taken just before.",
         "digest layout is recomputed independently; a self-consistent layout change is tolerated via the code's own verifier and counted", "5 C09"),
 "C10": ("deterministic simulation with byzantine proposers/peers: forbidden vertices through every entry point + snapshot scan",
         "Self-sealed, genesis-issued and empty transactions are offered by proposal (notary and ledger API), by gossip from an adversarial sealing key (canonical and alias spellings of the address), and via the orphan path; a second genesis is offered to live ledgers and an empty genesis to a fresh node; no snapshot may contain any of them.",
         "", "5 C10"),
 "C04": ("deterministic simulation with an in-flight corruption fault: seeded mutations (41 classes) of freshly sealed valid vertices delivered to real nodes through the gossip entry point (genuine copy before/after/never) and, altered in transit, through the DAG sync stream",
         "Every delivered mutant whose decoded content differs from the genuine vertex must be refused by the gossip-add entry point, must leave the ledger unchanged and must never appear in a later snapshot; the genuine copy must still be admitted afterwards; about 60 corrupted or malformed addresses per wallet must resolve to an error or the same key. Three admitted classes are recorded known findings.",
         "the quantifier is over inputs; the simulator contributes the stateful context (genuine copy admitted, parked, or arriving later) ", "5 C04"),
 "C17": ("deterministic simulation, fine mode: 2-5 client tasks interleaved at every bigcache call of the real cache + map model at quiescence + porcupine linearizability on short histories; sequential sequences with clock advances (listings compared after every step or only now and then), cached-balance calls with client-controlled key text",
         "The real Hippocampus on real bigcache is driven by seeded sequential sequences (compared with a map model after every operation, with the expiry window read from the code) and by concurrent client tasks whose interleaving at every cache call is chosen by the seed; listings at quiescence must equal saves minus removals, and histories of up to 14 operations must be linearizable.",
         "bigcache itself is not instrumented; expiry comparisons allow the documented slack", "5 C17"),
 "C19": ("deterministic simulation with clock-jump faults for encoder timestamps + seeded boundary product of field values through every crossing (wire, storage, cache)",
         "Vertices are created by the real constructors after the simulated clock jumped to the msgpack timestamp switch points; 40 constructed boundary vertices per run cover lengths 0..65536, integers at 2^7..2^64, non-UTF-8 text and timestamps a forward clock cannot reach; every crossing must preserve every signed field and the verification verdict.",
         "constructed boundary values are input enumeration, labelled as such; the crossings also run inside every net-sim run", "5 C19"),
 "C20": ("disk-fault enumeration on the wallet file between SaveWallet and ReadWallet: every torn-write length, every single-byte corruption with every value, wrong and illegal keys, stale file",
         "Per seeded wallet and key the fault positions are enumerated exhaustively: every prefix length of the file, every byte position set to each of the 255 other values, 40 wrong keys (incl. one-bit neighbours), 8 illegal key lengths, another wallet's file; the result must be the identical wallet for the untouched file and an error otherwise, never a panic.",
         "wallets and keys are sampled from the seed; fault positions per wallet are exhaustive", "5 C20"),
 "C15": ("deterministic simulation with byzantine-client and byzantine-peer faults: shape-product frames (mixed-radix enumeration by seed) delivered to the real handlers of a live small network under recover; malformed vertices returned by peers during parent fetch and sync",
         "60-100 malformed but decodable frames per run against the notary, gossip and webhooks handlers of nodes that hold a real ledger, awaiting contract, challenge and peers; a share of frames carries valid attacker signatures over data of any shape. Any panic (in the handler or in a goroutine it left behind) is a violation keyed by rpc and panicking function; a refused request must leave ledger, awaiting lists and peer table unchanged.",
         "coverage-guided mutation named in the quantifier is another technique; here shapes are enumerated by seed and sampled, which the evidence counts", "5 C15"),
 "C16": ("deterministic simulation: seeded sequences of honest and dishonest notary clients on 1-3 nodes (fine-mode concurrent duplicates, clock jumps past challenge expiry) + reference notary state machine",
         "Every response is judged by a reference notary: data-carrying transactions may appear in a ledger only after a valid confirm or a receiver-signed reject, at most once; pure transfers only after a validly signed proposal; requests with invalid signatures must fail and change neither ledger nor awaiting lists; listings, history and balances are served only against proof of key ownership and contain only the caller's data.",
         "availability of honest reads (throttle) is reported, not required; expiry windows are read from the code", "5 C16"),
 "C11": ("deterministic simulation: connected topologies on 2-6 real gossip nodes over SimNet with seeded delay, reordering and duplication (copies arriving together), handlers preempted inside in a share of runs, bursts of transactions from one origin; per-item oracle over the network log and the per-node ledger-call log",
         "Per injected item (vertex whose parents are admitted everywhere, or awaiting transaction): admitted by every node, at most once per node, forwarded only after the node's own acceptance, at most once per link (per suppression window for transactions), never sent to a node already listed with a valid signature, with at most sum-of-degrees messages. Labelled graphs on <=4 nodes are drawn by edge mask and delivery orders are sampled (their signatures are counted), not enumerated exhaustively. Dependent items in flight are a separate class whose non-delivery is a recorded known finding.",
         "request contexts are not cancelled on handler return (ctx_cancel_on_return off); loss is injected in a share of runs where only the safety half is judged", "5 C11"),
 "C12": ("deterministic simulation with a byzantine relay fault: forged gossiper lists (7 classes) spliced into the relay's outgoing gossip, and a worthless message under the item's hash sent ahead of it, in the C11 network; C11 per-item oracle restricted to honest nodes + honest-path delivery",
         "One node per run forwards gossip with forged gossiper entries (garbage, honest address with bad signature, valid signatures lifted from other items, its own signature under honest addresses, the target itself, all of the target's neighbours, duplicates) or, in an eighth class, sends the target a worthless message naming the item's hash before the item; every honest node with an honest path to the origin must still admit every item exactly once and honest nodes must never skip a peer because of an invalid entry.",
         "validity of entries is recomputed independently (sha256(address|hash), ed25519 under the address' key)", "5 C12"),
 "C13": ("deterministic simulation: seeded permutations (with duplicates and invalid vertices) of a valid history delivered to a genesis-only node, real 2 s retry ticker on the simulated clock; differential against parents-first delivery to a second real node",
         "Children that arrive before their parents must be reported as such and parked; after the retries the node must hold exactly the ledger (vertices, parent links, index, balances) of a second real node fed the same history parents-first; invalid vertices must never be admitted through the retry path; the buffer bound must hold.",
         "history sizes stay inside the code's bounds (500 parked, 25 retries), which are read through the hook", "5 C13"),
 "C14": ("deterministic simulation of the real sync client over a SimNet stream with seeded stream faults (duplicate vertex, duplicate transaction, unknown parent - both or one, second self-sealed, empty transaction, cut), source ledgers of 0-130 vertices incl. multi-tip, truncated and still-busy sources",
         "Clean streams: the joiner's vertices, parent links, index, genesis wallet and balances (tip by tip) must equal the peer's, and an identical follow-up gossip sequence (valid children, duplicates, overdrawing tips and their children, children of old tips, a late vertex on old parents merged with the tip) must be accepted and rejected alike by both. Corrupted streams: the joiner must stay unloaded and refuse proposals. Sync from a truncated peer is a recorded known finding.",
         "differentials are judged only when the makers went quiet; a source that moved during the stream is compared only if the joiner caught up", "5 C14"),
 "C18": ("deterministic simulation in a -race build: seeded concurrent workload over a loaded node's API and background loops, interleaved by the slot scheduler (task switches are fake-clock sleeps, which create no happens-before edge); oracle = Go race detector reports whose access sites lie in the repository",
         "2-4 proposers, gossip adds (valid, orphan, invalid), readers, a DAG stream consumer that sometimes abandons the stream, truncation and orphan retries run concurrently against one loaded node while its real retry ticker and truncation loop run; the seed decides the interleaving at every instrumented point. Each distinct unordered pair of repository access sites reported by the race detector is a violation with the seed as replay; reports with a site in the harness or the hook files are the machinery's own and are excluded (counted).",
         "inherits the race detector's limits: only races on executed schedules are reported; dependencies are not instrumented by the scheduler", "5 C18"),
}

NOT_YET = {}

def main():
    commits = subprocess.run(["git","-C","/repo","log","--format=%h %s"],capture_output=True,text=True).stdout.splitlines()
    hooks = [c.split()[0] for c in commits if "verif hook" in c]
    props = [json.loads(l) for l in open("/verif/properties.jsonl")]
    checks = []
    na = []
    for p in props:
        pid = p["id"]
        if pid in CHECKS:
            tech, text, note, ref = CHECKS[pid]
            level = "fault_enumeration" if pid == "C20" else "exploration"
            checks.append({
                "property_id": pid,
                "quick_cmd": f"bin/check {pid} quick",
                "thorough_cmd": f"bin/check {pid} thorough",
                "evidence_file": f"/verif/evidence/{pid}.json",
                "replay_cmd_template": "bin/replay {path}",
                "engine": "simcheck",
                "level_claimed": {"category": level, "text": text, "design_ref": "DESIGN.md section " + ref},
                "level_note": note or "sampling over seeds; see evidence assumptions",
                "technique": tech,
            })
        else:
            na.append({"property_id": pid, "reason": NOT_YET.get(pid, "check under construction in this session (simulation scenario not yet registered); the technique applies")})
    m = {
        "version": 1,
        "setup_cmd": "bin/setup",
        "hooks": {
            "guard": "verif",
            "enable": "go build -tags verif: hook files src/{accountant,gossip,notaryserver,webhooksserver,cache}/verif_hooks.go (new files only). Everything else (yield points, lock wrappers, map order, knobs, gRPC seam) is applied by /verif/simc to a scratch copy at check time and never enters /repo.",
            "baseline_off_cmd": "cd /repo/src && go test -vet=off -count=1 -timeout 25m ./...",
            "source_commits": hooks,
            "add_only": True,
        },
        "engines": [{"name": "simcheck", "path": "/verif/sim/harness (+ /verif/simrt, /verif/simc)", "serves_properties": sorted(CHECKS),
                     "kind_free_text": "deterministic simulation with fault injection: whole nodes in one process inside a testing/synctest bubble, slot scheduler on the fake clock, simulated network/disk, seeded plans, oracles against reference models, delta-debugged replay files"}],
        "checks": checks,
        "not_applicable": na,
        "notes": "exit 0 held / 1 VIOLATION / 2 infrastructure. VERIF_SEED selects the seed block; VERIF_RUNS / VERIF_BUDGET override the tier budgets.",
    }
    json.dump(m, open("/verif/MANIFEST.json","w"), indent=1)
    print("checks:", len(checks), "not_applicable:", len(na))

main()
