#!/usr/bin/env python3
"""Replay every witness under replays/known and replays/fixed with the given simcheck.test binary.
known: the signature must reproduce (the recorded trace hash is refreshed when the harness changed);
fixed: the signature must NOT occur on the current tree. Exit 1 on any surprise."""
import json, subprocess, sys, glob, re, os
binp = sys.argv[1] if len(sys.argv) > 1 else '/tmp/wdev/simcheck.test'
scratch = sys.argv[2] if len(sys.argv) > 2 else '/tmp/wdev/run'
os.makedirs(scratch, exist_ok=True)
bad = 0
for f in sorted(glob.glob('/verif/replays/known/*.json')):
    out = subprocess.run([binp, '-sim.replay', f, '-sim.scratch', scratch], capture_output=True, text=True, timeout=900).stdout
    m = re.search(r'trace hash differs: (\w+) vs', out)
    if 'reproduced:' not in out:
        print('NOT REPRODUCED', f, out[-300:]); bad += 1; continue
    if m:
        r = json.load(open(f)); r['trace_hash'] = m.group(1); json.dump(r, open(f, 'w'), indent=1)
        print('refreshed', os.path.basename(f))
    else:
        print('ok', os.path.basename(f))
for f in sorted(glob.glob('/verif/replays/fixed/*.json')):
    out = subprocess.run([binp, '-sim.replay', f, '-sim.scratch', scratch], capture_output=True, text=True, timeout=900).stdout
    if 'does not occur on this tree' in out:
        print('ok (fixed, absent)', os.path.basename(f))
    else:
        print('FIXED FINDING IS BACK', f, out[-300:]); bad += 1
sys.exit(1 if bad else 0)
