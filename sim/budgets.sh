# tier budgets (sourced by bin/check): runs and wall-clock budget of the exploration phase
# (quick: measured 30-50 s on 16 idle cores; the wall-clock budget cuts the batch on a loaded machine)
runs_quick=3400; budget_quick=60s
runs_thorough=120000; budget_thorough=25m
case "$ID" in
 C04) runs_quick=3000 ;;
 C05) runs_quick=7500 ;;
 C07) runs_quick=2400 ;;
 C08) runs_quick=2000 ;;
 C09|C10) runs_quick=3000 ;;
 C11|C12) runs_quick=3000 ;;
 C13) runs_quick=1600 ;;
 C14) runs_quick=1800 ;;
 C15) runs_quick=4500 ;;
 C16) runs_quick=2700 ;;
 C17) runs_quick=100000; runs_thorough=2000000 ;;
 C19) runs_quick=30000; runs_thorough=1000000 ;;
 C18) runs_quick=800; runs_thorough=20000 ;;
 C20) runs_quick=192; runs_thorough=4000 ;;
esac
