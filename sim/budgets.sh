# tier budgets (sourced by bin/check): runs and wall-clock budget of the exploration phase
runs_quick=3000; budget_quick=55s
runs_thorough=120000; budget_thorough=25m
case "$ID" in
 C04) runs_quick=4000 ;;
 C05) runs_quick=6000 ;;
 C07|C08) runs_quick=1800; budget_quick=60s ;;
 C11|C12) runs_quick=2500 ;;
 C13|C14) runs_quick=1300; budget_quick=60s ;;
 C16) runs_quick=2200; budget_quick=60s ;;
 C17) runs_quick=40000; runs_thorough=2000000 ;;
 C19) runs_quick=20000; runs_thorough=1000000 ;;
 C18) runs_quick=600; budget_quick=60s; runs_thorough=20000 ;;
 C20) runs_quick=192; runs_thorough=4000 ;;
esac
