# tier budgets (sourced by bin/check): runs and wall-clock budget of the exploration phase
runs_quick=1500; budget_quick=40s
runs_thorough=80000; budget_thorough=20m
case "$ID" in
 C05) runs_quick=3000 ;;
 C07|C08) runs_quick=1200; budget_quick=50s ;;
 C13|C14) runs_quick=800; budget_quick=50s ;;
 C15|C16) runs_quick=1500; budget_quick=45s ;;
 C17|C19) runs_quick=2000 ;;
 C18) runs_quick=320; budget_quick=60s; runs_thorough=12000 ;;
 C20) runs_quick=64; runs_thorough=2000 ;;
esac
