# tier budgets (sourced by bin/check): runs and wall-clock budget of the exploration phase
runs_quick=1500; budget_quick=40s
runs_thorough=60000; budget_thorough=20m
case "$ID" in
 C05) runs_quick=3000 ;;
 C07|C08) runs_quick=1200; budget_quick=50s ;;
esac
