package harness

import (
	"bytes"
	"fmt"
	"math/big"
	"sort"

	"github.com/bartossh/Computantis/src/accountant"
	"github.com/bartossh/Computantis/src/spice"
	"verif.local/simrt"
)

// AVertex is the harness's own copy of a vertex it has seen anywhere.
type AVertex struct {
	V      accountant.Vertex
	Source string
	First  int64
}

// Archive keeps every vertex the harness has ever seen, keyed by vertex hash
// (first content seen under a hash wins; later different contents are counted).
type Archive struct {
	V        map[Hash]*AVertex
	Variants int
}

func newArchive() *Archive { return &Archive{V: map[Hash]*AVertex{}} }

func sameSigned(a, b *accountant.Vertex) bool {
	return a.Hash == b.Hash && a.SignerPublicAddress == b.SignerPublicAddress && a.CreatedAt.UnixNano() == b.CreatedAt.UnixNano() &&
		bytes.Equal(a.Signature, b.Signature) && a.LeftParentHash == b.LeftParentHash && a.RightParentHash == b.RightParentHash &&
		a.Weight == b.Weight && sameTrx(&a.Transaction, &b.Transaction)
}

func (a *Archive) addVertex(v *accountant.Vertex, src string) {
	if v == nil {
		return
	}
	if old, ok := a.V[v.Hash]; ok {
		if !sameSigned(&old.V, v) {
			a.Variants++
		}
		return
	}
	cp := *v
	a.V[v.Hash] = &AVertex{V: cp, Source: src, First: simrt.Now()}
}

// SVertex is a vertex of a snapshot.
type SVertex struct {
	V        accountant.Vertex
	ID       string
	Live     bool
	GParents []string // graph parents (ids) as reported by the graph
	GChild   []string
}

// Snap is the harness view of one node's ledger at one instant.
type Snap struct {
	Node               int
	At                 int64
	Live               map[Hash]*SVertex
	LiveIDs            map[string]*SVertex
	Stored             map[Hash]*SVertex
	StoredDup          []Hash
	StoredBad          []string
	Funds              map[string]spice.Melange
	FundsRaw           map[string][]byte
	StrayKeys          []string
	Index              map[Hash][]byte
	Leaves             []string
	Roots              []string
	Trusted            map[string]bool
	Genesis            string
	Loaded             bool
	Weight, Throughput uint64
	Parked             []accountant.VerifParked
	BadIDs             []string
}

func idHash(id string) (Hash, bool) {
	var h Hash
	if len(id) != 32 {
		return h, false
	}
	copy(h[:], id)
	return h, true
}

func convertSnap(node int, r accountant.VerifSnap) *Snap {
	s := &Snap{Node: node, At: simrt.Now(), Live: map[Hash]*SVertex{}, LiveIDs: map[string]*SVertex{}, Stored: map[Hash]*SVertex{},
		Funds: r.Funds, FundsRaw: r.FundsRaw, Index: r.Index, Leaves: r.Leaves, Roots: r.Roots, Trusted: map[string]bool{},
		Genesis: r.Genesis, Loaded: r.Loaded, Weight: r.Weight, Throughput: r.Throughput, Parked: r.Parked, StrayKeys: r.StrayKeys}
	for _, t := range r.Trusted {
		s.Trusted[t] = true
	}
	for _, lv := range r.Live {
		sv := &SVertex{V: lv.Vertex, ID: lv.ID, Live: true, GParents: lv.Parents, GChild: lv.Children}
		s.LiveIDs[lv.ID] = sv
		if h, ok := idHash(lv.ID); ok {
			s.Live[h] = sv
		} else {
			s.BadIDs = append(s.BadIDs, lv.ID)
		}
	}
	for _, st := range r.Stored {
		if st.DecodeErr != "" {
			s.StoredBad = append(s.StoredBad, fmt.Sprintf("%x: %s", st.Key[:6], st.DecodeErr))
			continue
		}
		if _, dup := s.Stored[st.Key]; dup {
			s.StoredDup = append(s.StoredDup, st.Key)
		}
		s.Stored[st.Key] = &SVertex{V: st.Vertex, ID: string(st.Key[:])}
	}
	return s
}

// get resolves a vertex hash in the snapshot (live first, then stored).
func (s *Snap) get(h Hash) *SVertex {
	if v, ok := s.Live[h]; ok {
		return v
	}
	if v, ok := s.Stored[h]; ok {
		return v
	}
	return nil
}

func declParents(v *accountant.Vertex) []Hash {
	if v.LeftParentHash == v.RightParentHash {
		return []Hash{v.LeftParentHash}
	}
	return []Hash{v.LeftParentHash, v.RightParentHash}
}

var zeroHash Hash

// ancestors returns the transitive declared ancestry of v inside the snapshot (excluding v),
// falling back to the archive for hashes the snapshot does not hold. missing collects
// declared parents found nowhere.
func (s *Snap) ancestors(a *Archive, v *accountant.Vertex, missing *[]Hash) map[Hash]*accountant.Vertex {
	out := map[Hash]*accountant.Vertex{}
	stack := declParents(v)
	for len(stack) > 0 {
		h := stack[len(stack)-1]
		stack = stack[:len(stack)-1]
		if h == zeroHash {
			continue
		}
		if _, ok := out[h]; ok {
			continue
		}
		var pv *accountant.Vertex
		if sv := s.get(h); sv != nil {
			pv = &sv.V
		} else if av, ok := a.V[h]; ok {
			pv = &av.V
		}
		if pv == nil {
			if missing != nil {
				*missing = append(*missing, h)
			}
			continue
		}
		out[h] = pv
		stack = append(stack, declParents(pv)...)
	}
	return out
}

// liveChildrenByDecl maps each live vertex hash to the live vertices that declare it as parent.
func (s *Snap) liveChildrenByDecl() map[Hash][]Hash {
	m := map[Hash][]Hash{}
	for h, sv := range s.Live {
		for _, p := range declParents(&sv.V) {
			if p == zeroHash {
				continue
			}
			m[p] = append(m[p], h)
		}
	}
	return m
}

// confirmed = live vertices with at least one live child (by declared parents) plus stored vertices.
func (s *Snap) confirmed() map[Hash]*accountant.Vertex {
	out := map[Hash]*accountant.Vertex{}
	ch := s.liveChildrenByDecl()
	for h, sv := range s.Live {
		if len(ch[h]) > 0 {
			out[h] = &sv.V
		}
	}
	for h, sv := range s.Stored {
		out[h] = &sv.V
	}
	return out
}

// flows sums inflow and outflow of addr over a vertex set, as exact integers.
func flows(addr string, set map[Hash]*accountant.Vertex) (in, out *big.Int) {
	in, out = new(big.Int), new(big.Int)
	for _, v := range set {
		t := &v.Transaction
		if t.Spice.Currency == 0 && t.Spice.SupplementaryCurrency == 0 {
			continue
		}
		if t.IssuerAddress == addr {
			out.Add(out, melVal(t.Spice))
		}
		if t.ReceiverAddress == addr {
			in.Add(in, melVal(t.Spice))
		}
	}
	return
}

func sortedHashes(m map[Hash]*accountant.Vertex) []Hash {
	out := make([]Hash, 0, len(m))
	for h := range m {
		out = append(out, h)
	}
	sort.Slice(out, func(i, j int) bool { return bytes.Compare(out[i][:], out[j][:]) < 0 })
	return out
}

// shape is an abstract signature of the ledger used to count distinct states reached.
func (s *Snap) shape() string {
	depth := 0
	for _, sv := range s.Live {
		if int(sv.V.Weight) > depth {
			depth = int(sv.V.Weight)
		}
	}
	return fmt.Sprintf("L%d.S%d.T%d.D%d.P%d.F%d", len(s.Live), len(s.Stored), len(s.Leaves), depth, len(s.Parked), len(s.Funds))
}

func sortHashes(hs []Hash) {
	sort.Slice(hs, func(i, j int) bool { return bytes.Compare(hs[i][:], hs[j][:]) < 0 })
}
