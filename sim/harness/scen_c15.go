package harness

import (
	"context"
	"crypto/sha256"
	"fmt"
	"github.com/bartossh/Computantis/src/cache"
	"sort"
	"strings"
	"time"

	"github.com/mr-tron/base58"
	"google.golang.org/protobuf/proto"
	"google.golang.org/protobuf/types/known/emptypb"

	"github.com/bartossh/Computantis/src/gossip"
	pb "github.com/bartossh/Computantis/src/protobufcompiled"
	"github.com/bartossh/Computantis/src/spice"
	"github.com/bartossh/Computantis/src/transaction"
	"github.com/bartossh/Computantis/src/webhooks"
	"github.com/bartossh/Computantis/src/webhooksserver"
	"verif.local/simrt"
)

// C15: byzantine clients and peers. At seeded moments of an otherwise normal run a
// malformed (but protobuf-decodable) request is delivered to a handler of the notary,
// gossip or webhooks service, or a malformed vertex is returned by a peer.

type shaper struct {
	w    *World
	r    *prng
	idx  uint64
	desc []string
}

func (s *shaper) pick(field string, n int) int {
	k := int(s.idx % uint64(n))
	s.idx /= uint64(n)
	return k
}

func (s *shaper) note(field, shape string) { s.desc = append(s.desc, field+"="+shape) }

var byteShapes = []string{"nil", "empty", "1", "31", "32", "33", "long"}

func (s *shaper) bytes(field string) []byte {
	k := s.pick(field, len(byteShapes))
	s.note(field, byteShapes[k])
	switch k {
	case 0:
		return nil
	case 1:
		return []byte{}
	case 2:
		return s.r.Bytes(1)
	case 3:
		return s.r.Bytes(31)
	case 4:
		return s.r.Bytes(32)
	case 5:
		return s.r.Bytes(33)
	}
	return s.r.Bytes(200 + s.r.Intn(2000))
}

func (s *shaper) addr(field string) string {
	k := s.pick(field, 5)
	switch k {
	case 0:
		s.note(field, "empty")
		return ""
	case 1:
		s.note(field, "valid-wallet")
		return s.w.WAddr[s.r.Intn(len(s.w.WAddr))]
	case 2:
		s.note(field, "garbage")
		return string(s.r.Bytes(1 + s.r.Intn(60)))
	case 3:
		s.note(field, "checksum-valid-wrong-length")
		body := append([]byte{0}, s.r.Bytes([]int{0, 1, 31, 33}[s.r.Intn(4)])...)
		return base58.Encode(append(body, checksum4(body)...))
	}
	s.note(field, "attacker")
	return s.w.adversary().Address()
}

func (s *shaper) u64(field string) uint64 {
	v := []uint64{0, 1, 1 << 63, ^uint64(0)}
	k := s.pick(field, len(v))
	s.note(field, fmt.Sprint(v[k]))
	return v[k]
}

// signedHash builds a SignedHash; in a share of cases the attacker signs correctly whatever
// short or long data it likes, so that the request passes signature verification.
func (s *shaper) signedHash() *pb.SignedHash {
	m := &pb.SignedHash{}
	mode := s.pick("mode", 3)
	switch mode {
	case 0: // free shapes
		s.note("mode", "free")
		m.Address = s.addr("address")
		m.Data = s.bytes("data")
		m.Hash = s.bytes("hash")
		m.Signature = s.bytes("signature")
	case 1: // consistently signed by the attacker over data of any shape
		s.note("mode", "attacker-signed")
		m.Data = s.bytes("data")
		d := sha256.Sum256(m.Data)
		_, sig := s.w.adversary().Sign(m.Data)
		m.Address, m.Hash, m.Signature = s.w.adversary().Address(), d[:], sig
	default: // a wallet of the run signs its own address / challenge shaped data
		s.note("mode", "wallet-signed")
		wi := s.r.Intn(len(s.w.Wallets))
		wl := s.w.Wallets[wi]
		switch s.pick("data", 3) {
		case 0:
			m.Data = []byte(wl.Address())
		case 1:
			m.Data = s.r.Bytes(s.r.Intn(40))
		default:
			m.Data = nil
		}
		d := sha256.Sum256(m.Data)
		_, sig := wl.Sign(m.Data)
		m.Address, m.Hash, m.Signature = wl.Address(), d[:], sig
	}
	return m
}

func (s *shaper) spice() *pb.Spice {
	switch s.pick("spice", 4) {
	case 0:
		s.note("spice", "nil")
		return nil
	case 1:
		s.note("spice", "zero")
		return &pb.Spice{}
	case 2:
		s.note("spice", "small")
		return &pb.Spice{Currency: 1, SupplementaryCurrency: 5}
	}
	s.note("spice", "extreme")
	return &pb.Spice{Currency: ^uint64(0), SupplementaryCurrency: ^uint64(0)}
}

func (s *shaper) transaction() *pb.Transaction {
	if s.pick("trx", 12) == 0 {
		s.note("trx", "valid-base-with-one-field-reshaped")
		// a validly signed transaction with exactly one field reshaped afterwards
		st := Step{From: 0, To: 1, Sup: 7, Data: 5}
		t, err := s.w.newTrx(&st)
		if err == nil {
			p, _ := protoOf(&t)
			switch s.pick("field", 5) {
			case 0:
				p.Hash = s.bytes("hash")
			case 1:
				p.Spice = s.spice()
			case 2:
				p.IssuerSignature = s.bytes("issuer-signature")
			case 3:
				p.ReceiverSignature = s.bytes("receiver-signature")
			default:
				p.ReceiverAddress = s.addr("receiver")
			}
			return p
		}
	}
	m := &pb.Transaction{}
	if s.pick("subject", 2) == 1 {
		m.Subject = "subject"
	}
	m.Data = s.bytes("data")
	m.Hash = s.bytes("hash")
	m.CreatedAt = s.u64("created-at")
	m.ReceiverAddress = s.addr("receiver")
	m.IssuerAddress = s.addr("issuer")
	m.ReceiverSignature = s.bytes("receiver-signature")
	m.IssuerSignature = s.bytes("issuer-signature")
	m.Spice = s.spice()
	return m
}

func (s *shaper) vertex() *pb.Vertex {
	if s.pick("vertex", 6) == 0 {
		s.note("vertex", "nil")
		return nil
	}
	m := &pb.Vertex{}
	m.SignerPublicAddress = s.addr("signer")
	m.CreatedAt = s.u64("created-at")
	m.Signature = s.bytes("signature")
	m.Hash = s.bytes("hash")
	m.LeftParentHash = s.bytes("left")
	m.RightParentHash = s.bytes("right")
	m.Weight = s.u64("weight")
	if s.pick("transaction", 5) == 0 {
		s.note("transaction", "nil")
	} else {
		m.Transaction = s.transaction()
	}
	return m
}

func (s *shaper) gossipers(item []byte) []*pb.Gossiper {
	switch s.pick("gossipers", 5) {
	case 0:
		s.note("gossipers", "nil")
		return nil
	case 1:
		s.note("gossipers", "nil-entry")
		return []*pb.Gossiper{nil}
	case 2:
		s.note("gossipers", "shaped-entry")
		return []*pb.Gossiper{{Address: s.addr("g.address"), Digest: s.bytes("g.digest"), Signature: s.bytes("g.signature")}}
	case 3:
		s.note("gossipers", "valid-attacker")
		if len(item) >= 32 {
			return []*pb.Gossiper{signedGossiper(s.w.adversary(), toHash(item))}
		}
		return nil
	}
	s.note("gossipers", "many")
	var out []*pb.Gossiper
	for i := 0; i < 300; i++ {
		out = append(out, &pb.Gossiper{Address: s.w.WAddr[i%len(s.w.WAddr)], Digest: s.r.Bytes(32), Signature: s.r.Bytes(64)})
	}
	return out
}

func (s *shaper) connectionData() *pb.ConnectionData {
	m := &pb.ConnectionData{}
	if s.pick("mode", 2) == 0 {
		s.note("mode", "free")
		m.PublicAddress, m.Url, m.CreatedAt, m.Digest, m.Signature = s.addr("address"), "sim://nowhere", s.u64("created-at"), s.bytes("digest"), s.bytes("signature")
		return m
	}
	s.note("mode", "attacker-signed")
	adv := s.w.adversary()
	m.PublicAddress, m.CreatedAt = adv.Address(), s.u64("created-at")
	m.Url = []string{"", "sim://n0", "sim://nowhere", string(s.r.Bytes(5))}[s.pick("url", 4)]
	d, sig := adv.Sign(gossip.VerifConnectionData(m.PublicAddress, m.Url, m.CreatedAt))
	m.Digest, m.Signature = d[:], sig
	if s.pick("digest", 3) == 0 {
		m.Digest = s.bytes("digest")
	}
	return m
}

type rpcCase struct {
	name string
	call func(w *World, n *Node, s *shaper, ctx context.Context) (proto.Message, error)
}

func decodable[T proto.Message](in T, out T) T {
	if err := roundTrip(in, out); err != nil {
		return in
	}
	return out
}

func rpcCases(wh pb.WebhooksAPIServer) []rpcCase {
	return []rpcCase{
		{"notary.Propose", func(w *World, n *Node, s *shaper, ctx context.Context) (proto.Message, error) {
			return n.Notary.Propose(ctx, decodable(s.transaction(), &pb.Transaction{}))
		}},
		{"notary.Confirm", func(w *World, n *Node, s *shaper, ctx context.Context) (proto.Message, error) {
			return n.Notary.Confirm(ctx, decodable(s.transaction(), &pb.Transaction{}))
		}},
		{"notary.Reject", func(w *World, n *Node, s *shaper, ctx context.Context) (proto.Message, error) {
			return n.Notary.Reject(ctx, decodable(s.signedHash(), &pb.SignedHash{}))
		}},
		{"notary.Waiting", func(w *World, n *Node, s *shaper, ctx context.Context) (proto.Message, error) {
			return n.Notary.Waiting(ctx, decodable(s.signedHash(), &pb.SignedHash{}))
		}},
		{"notary.Saved", func(w *World, n *Node, s *shaper, ctx context.Context) (proto.Message, error) {
			return n.Notary.Saved(ctx, decodable(s.signedHash(), &pb.SignedHash{}))
		}},
		{"notary.Data", func(w *World, n *Node, s *shaper, ctx context.Context) (proto.Message, error) {
			return n.Notary.Data(ctx, &pb.Address{Public: s.addr("public")})
		}},
		{"notary.TransactionsInDAG", func(w *World, n *Node, s *shaper, ctx context.Context) (proto.Message, error) {
			return n.Notary.TransactionsInDAG(ctx, decodable(s.signedHash(), &pb.SignedHash{}))
		}},
		{"notary.Balance", func(w *World, n *Node, s *shaper, ctx context.Context) (proto.Message, error) {
			return n.Notary.Balance(ctx, decodable(s.signedHash(), &pb.SignedHash{}))
		}},
		{"notary.Alive", func(w *World, n *Node, s *shaper, ctx context.Context) (proto.Message, error) {
			return n.Notary.Alive(ctx, &emptypb.Empty{})
		}},
		{"gossip.Announce", func(w *World, n *Node, s *shaper, ctx context.Context) (proto.Message, error) {
			return n.Goss.Server().Announce(ctx, decodable(s.connectionData(), &pb.ConnectionData{}))
		}},
		{"gossip.Discover", func(w *World, n *Node, s *shaper, ctx context.Context) (proto.Message, error) {
			return n.Goss.Server().Discover(ctx, decodable(s.connectionData(), &pb.ConnectionData{}))
		}},
		{"gossip.GossipVrx", func(w *World, n *Node, s *shaper, ctx context.Context) (proto.Message, error) {
			m := &pb.VrxMsgGossip{Vertex: s.vertex()}
			if m.Vertex != nil {
				m.Gossipers = s.gossipers(m.Vertex.Hash)
			}
			return n.Goss.Server().GossipVrx(ctx, decodable(m, &pb.VrxMsgGossip{}))
		}},
		{"gossip.GossipTrx", func(w *World, n *Node, s *shaper, ctx context.Context) (proto.Message, error) {
			m := &pb.TrxMsgGossip{}
			if s.pick("trx", 6) != 0 {
				m.Trx = s.transaction()
				m.Gossipers = s.gossipers(m.Trx.Hash)
			}
			return n.Goss.Server().GossipTrx(ctx, decodable(m, &pb.TrxMsgGossip{}))
		}},
		{"gossip.GetVertex", func(w *World, n *Node, s *shaper, ctx context.Context) (proto.Message, error) {
			return n.Goss.Server().GetVertex(ctx, decodable(s.signedHash(), &pb.SignedHash{}))
		}},
		{"gossip.Alive", func(w *World, n *Node, s *shaper, ctx context.Context) (proto.Message, error) {
			return n.Goss.Server().Alive(ctx, &emptypb.Empty{})
		}},
		{"webhooks.Webhooks", func(w *World, n *Node, s *shaper, ctx context.Context) (proto.Message, error) {
			return wh.Webhooks(ctx, decodable(s.signedHash(), &pb.SignedHash{}))
		}},
		{"peer.GetVertexReply", func(w *World, n *Node, s *shaper, ctx context.Context) (proto.Message, error) {
			// a peer answers a fetch of a missing parent with a malformed vertex
			if len(w.Nodes) < 2 {
				return nil, nil
			}
			bad := s.vertex()
			if bad == nil {
				bad = &pb.Vertex{}
			}
			w.Net.Mutate = func(from, to int, kind string, msg proto.Message) proto.Message {
				if kind == "GetVertexReply" {
					return decodable(bad, &pb.Vertex{})
				}
				return nil
			}
			defer func() { w.Net.Mutate = nil }()
			// an orphan makes node n ask its peers for the parent
			st := Step{Op: "inject", Node: n.Idx, Kind: "orphan", From: 0, To: 1, Cur: 1}
			var res StepResult
			w.doInject(-1, &st, n, &res)
			simrt.SleepFor(300 * time.Millisecond)
			return nil, nil
		}},
		{"peer.DiscoverReply", func(w *World, n *Node, s *shaper, ctx context.Context) (proto.Message, error) {
			// the genesis node's answer to a join carries malformed connection entries
			if len(w.Nodes) < 2 || n.Idx == 0 {
				return nil, nil
			}
			w.Net.Mutate = func(from, to int, kind string, msg proto.Message) proto.Message {
				cn, ok := msg.(*pb.ConnectedNodes)
				if kind != "DiscoverReply" || !ok {
					return nil
				}
				bad := s.connectionData()
				if bad == nil {
					bad = &pb.ConnectionData{}
				}
				cn.Connections = append([]*pb.ConnectionData{decodable(bad, &pb.ConnectionData{})}, cn.Connections...)
				return cn
			}
			defer func() { w.Net.Mutate = nil }()
			var res StepResult
			w.spawnOp(fmt.Sprintf("n%d:join", n.Idx), n, &res, func(c context.Context) error { return n.Goss.Join(c, w.Nodes[0].URL) })
			w.waitOps(opBudget)
			if res.Panic != "" {
				panic(res.Panic)
			}
			return nil, nil
		}},
		{"peer.LoadDagStream", func(w *World, n *Node, s *shaper, ctx context.Context) (proto.Message, error) {
			// a joining node receives a malformed vertex in the sync stream
			bad := s.vertex()
			if bad == nil {
				bad = &pb.Vertex{}
			}
			w.streamBad = decodable(bad, &pb.Vertex{})
			w.Net.StreamFault = &StreamFault{Kind: "malformed", Index: 0}
			j := len(w.Nodes)
			w.addNode()
			err := w.joinNode(j, n.Idx)
			_ = err
			w.streamBad = nil
			return nil, nil
		}},
	}
}

func (w *World) stateDigest(n *Node) string {
	var parts []string
	if s := w.snapshot(n); s != nil {
		d := *s
		d.Parked = nil
		parts = append(parts, snapDigest(&d))
		if w.parkedSeen == nil {
			w.parkedSeen = map[int]int{}
		}
		// remember for two calls whether orphans were waiting (their retry may change the ledger at any time)
		w.parkedSeen[n.Idx] = w.parkedSeen[n.Idx]/2 + 2*len(s.Parked)
	} else {
		parts = append(parts, stateNA)
	}
	// the awaiting cache is part of the state as long as nothing in it can have expired yet
	// (expired entries disappear whenever the cache's cleaner runs)
	if life, _ := cache.VerifWindows(); simrt.Now() < int64(life)-int64(20*time.Second) {
		keys := []string{}
		for k, v := range n.Hippo.VerifDump() {
			if !strings.HasPrefix(k, "trx-") && !strings.HasPrefix(k, "address-") {
				continue // cached balances live in the same cache; they are not awaiting lists
			}
			h := sha256.Sum256(v)
			keys = append(keys, fmt.Sprintf("%s=%x", k, h[:6]))
		}
		sort.Strings(keys)
		if w.cacheKeys == nil {
			w.cacheKeys = map[int][2][]string{}
		}
		w.cacheKeys[n.Idx] = [2][]string{w.cacheKeys[n.Idx][1], keys} // the last two listings, for violation details
		parts = append(parts, strings.Join(keys, ","))
	} else {
		parts = append(parts, stateNA)
	}
	parts = append(parts, strings.Join(n.Goss.PeerList(), ","))
	for i, p := range parts {
		if p == stateNA {
			continue
		}
		h := sha256.Sum256([]byte(p))
		parts[i] = fmt.Sprintf("%x", h[:5])
	}
	return strings.Join(parts, "|") // ledger | awaiting cache (not judged once something in it can expire) | peers
}

const stateNA = "not-judged"

// stateChanged compares two state digests part by part; a part that is not judged on either side does not count.
func stateChanged(a, b string) bool {
	pa, pb := strings.Split(a, "|"), strings.Split(b, "|")
	if len(pa) != len(pb) {
		return false // a snapshot was not available on one side
	}
	for i := range pa {
		if pa[i] == stateNA || pb[i] == stateNA {
			continue
		}
		if pa[i] != pb[i] {
			return true
		}
	}
	return false
}

// cacheDelta describes how the last two awaiting-cache listings of node n differ.
func (w *World) cacheDelta(n int) string {
	a, b := w.cacheKeys[n][0], w.cacheKeys[n][1]
	in := func(xs []string, x string) bool {
		for _, y := range xs {
			if y == x {
				return true
			}
		}
		return false
	}
	var out []string
	for _, x := range a {
		if !in(b, x) {
			out = append(out, "-"+x)
		}
	}
	for _, x := range b {
		if !in(a, x) {
			out = append(out, "+"+x)
		}
	}
	if len(out) > 6 {
		out = out[:6]
	}
	return strings.Join(out, " ")
}

func stateDiff(a, b string) string {
	names := []string{"ledger", "awaiting-cache", "peers"}
	pa, pb := strings.Split(a, "|"), strings.Split(b, "|")
	var out []string
	for i := range pa {
		if i < len(pb) && pa[i] != pb[i] && pa[i] != stateNA && pb[i] != stateNA {
			n := "part"
			if len(pa) == 3 {
				n = names[i]
			} else if i == 0 {
				n = "ledger"
			} else {
				n = "peers"
			}
			out = append(out, n)
		}
	}
	return strings.Join(out, ",")
}

func crashScenario(w *World, p *Plan, rec *Record) {
	r := newPRNG(p.Seed ^ 0xC15)
	if err := w.bootstrap(); err != nil {
		rec.Infra = "bootstrap: " + err.Error()
		return
	}
	wlog := &recLogger{}
	wh := webhooksserver.VerifNew(wlog, w.Verifier, webhooks.New(wlog))
	cases := rpcCases(wh)
	// some normal state first: a ledger, an awaiting contract, a challenge
	w.Results = make([]StepResult, 0, 8)
	norm := []Step{
		{Op: "propose", Node: 0, From: 0, To: 1, Cur: 5, Via: "notary"},
		{Op: "propose", Node: r.Intn(len(w.Nodes)), From: 0, To: 2 % len(w.Wallets), Data: 12, Via: "notary"},
		{Op: "propose", Node: 0, From: 1, To: 0, Cur: 1, Via: "ledger"},
	}
	for i := range norm {
		w.Results = append(w.Results, StepResult{})
		w.Trxs = append(w.Trxs, nil)
		w.execStep(i, &norm[i])
	}
	w.Nodes[0].Notary.Data(context.Background(), &pb.Address{Public: w.WAddr[0]})
	w.settle()
	var samples []string
	seenTaskPanic := map[int]bool{}
	w.taskPanicReported = seenTaskPanic
	nreq := 60 + r.Intn(40)
	for k := 0; k < nreq && len(w.stuck) == 0; k++ {
		if !w.opEnabled(k) {
			continue
		}
		r := w.opRNG(k)
		c := cases[r.Intn(len(cases))]
		if strings.HasPrefix(c.name, "peer.") && r.Chance(0.7) {
			continue
		}
		n := w.Nodes[r.Intn(len(w.Nodes))]
		if !n.Alive || !n.Loaded {
			n = w.Nodes[0]
		}
		s := &shaper{w: w, r: r, idx: r.Uint64()}
		before := w.stateDigest(n)
		netMark := len(w.Net.Log)
		quietBefore := w.Net.quiet()
		callMark := len(w.AccCalls)
		var resp proto.Message
		var err error
		pn, at := "", ""
		w.curTag = c.name
		func() {
			defer func() {
				if rr := recover(); rr != nil {
					pn, at = fmt.Sprint(rr), simrt.PanicOrigin()
				}
			}()
			ctx, cancel := context.WithCancel(n.ctx)
			defer cancel()
			me := simrt.Me()
			old := me.Label
			me.Label = n.URL
			defer func() { me.Label = old }()
			resp, err = c.call(w, n, s, ctx)
		}()
		w.fault("byz-frame:" + c.name)
		desc := strings.Join(s.desc, " ")
		if len(samples) < 10 {
			samples = append(samples, fmt.Sprintf("%s {%s} -> err=%v panic=%v", c.name, desc, err != nil, pn != ""))
		}
		if pn != "" {
			w.violate("C15", "panic", c.name+"@"+at, n.Idx, "%s {%s}: %s", c.name, desc, pn)
		}
		simrt.SleepFor(20 * time.Millisecond)
		// panics of goroutines the handler left behind
		for _, t := range simrt.S.Tasks {
			if t.Panic != "" && !seenTaskPanic[t.ID] {
				seenTaskPanic[t.ID] = true
				w.violate("C15", "panic", c.name+"@"+t.PanicAt+"(background)", n.Idx, "%s {%s}: %s", c.name, desc, t.Panic)
			}
		}
		for _, pr := range w.Panics {
			if !w.panicSeen[pr.Msg+pr.Where] {
				if w.panicSeen == nil {
					w.panicSeen = map[string]bool{}
				}
				w.panicSeen[pr.Msg+pr.Where] = true
				if pn == "" {
					w.violate("C15", "panic", c.name+"@"+pr.Where, pr.Node, "%s {%s}: %s", c.name, desc, pr.Msg)
				}
			}
		}
		_ = resp
		if err != nil && pn == "" && !strings.HasPrefix(c.name, "peer.") {
			w.probe("c15-rejected-requests")
			if after := w.stateDigest(n); stateChanged(before, after) && !w.ledgerMovedLegitimately(n) && quietBefore && w.Net.quiet() && netMark == len(w.Net.Log) && callMark == len(w.AccCalls) {
				w.violate("C15", "state", "rejected-request-changed-state:"+c.name, n.Idx, "{%s} changed %s", desc, stateDiff(before, after))
			}
		}
	}
	w.abandonedRequests(r)
	w.observe()
	rec.Nontrivial = true
	rec.Sample = samples
}

// abandonedRequests: a perfectly valid request whose caller has given up (deadline passed, stream reset:
// the handler runs with a cancelled context) is refused; like every refused request it must leave the ledger
// as it was.
func (w *World) abandonedRequests(r *prng) {
	n := w.Nodes[0]
	if !n.Alive || !n.Loaded || len(w.stuck) > 0 {
		return
	}
	for j := 0; j < 3; j++ {
		if !w.waitQuiet(20 * time.Second) {
			return
		}
		simrt.SleepFor(5 * time.Second) // past the orphan retries of the frames above
		if w.ledgerMovedLegitimately(n) {
			return
		}
		before := w.stateDigest(n)
		netMark, callMark := len(w.Net.Log), len(w.AccCalls)
		ctx, cancel := context.WithCancel(n.ctx)
		cancel()
		name := "notary.Propose"
		var err error
		func() {
			defer func() {
				if rr := recover(); rr != nil {
					w.violate("C15", "panic", "abandoned:"+name+"@"+simrt.PanicOrigin(), n.Idx, "%v", rr)
				}
			}()
			me := simrt.Me()
			old := me.Label
			me.Label = n.URL
			defer func() { me.Label = old }()
			if j%2 == 0 {
				t, e := transaction.New("pay", spice.Melange{SupplementaryCurrency: uint64(1 + r.Intn(100))}, nil, w.WAddr[1], w.Wallets[0])
				if e != nil {
					return
				}
				pt, _ := protoOf(&t)
				_, err = n.Notary.Propose(ctx, pt)
			} else {
				name = "gossip.GossipVrx"
				v, e := w.craft(n, &Step{Kind: "valid", From: 0, To: 1, Sup: uint64(1 + r.Intn(100))}, w.adversary())
				if e != nil {
					return
				}
				msg := &pb.VrxMsgGossip{Vertex: gossip.VerifVertexToProto(v), Gossipers: []*pb.Gossiper{signedGossiper(w.adversary(), v.Hash)}}
				_, err = n.Goss.Server().GossipVrx(ctx, msg)
			}
		}()
		w.probe("c15-abandoned-requests")
		w.fault("ctx-cancelled-before-call")
		simrt.SleepFor(30 * time.Millisecond)
		if err != nil {
			if after := w.stateDigest(n); stateChanged(before, after) && w.Net.quiet() && netMark == len(w.Net.Log) && callMark+1 >= len(w.AccCalls) && !w.ledgerMovedLegitimately(n) {
				w.violate("C15", "state", "rejected-request-changed-state:"+name+":cancelled-context", n.Idx, "refused with %v, changed %s", err, stateDiff(before, after))
			}
		}
	}
}

// ledgerMovedLegitimately: orphan retries and in-flight gossip may change a ledger at any time.
func (w *World) ledgerMovedLegitimately(n *Node) bool {
	s := w.snapshot(n)
	return s == nil || len(s.Parked) > 0 || !w.Net.quiet() || w.parkedSeen[n.Idx] > 0
}

func init() {
	scenarios["crashreq"] = crashScenario
	generators["C15"] = func(r *prng, seed uint64, tier string) *Plan {
		cfg := Config{Nodes: 1 + r.Intn(2), Wallets: 3, SupplyCur: 1000, LatMinMS: 2, LatJitMS: 10, DataSize: 2048, StreamBuf: 4, SettleMS: 300}
		return &Plan{Scenario: "crashreq", Cfg: cfg}
	}
	nontrivialRule["C15"] = "one evaluation = one seeded run: a small live network (ledger, awaiting contract, challenge, peers), then 60-100 byzantine frames: a request type is drawn and its fields take shapes decoded from a mixed-radix index (bytes: nil/empty/1/31/32/33/long; addresses: empty/valid/garbage/checksum-valid-wrong-length/attacker; integers 0/1/2^63/2^64-1; sub-messages nil/empty/populated; a share carries valid attacker signatures over data of any shape), round-tripped through the wire encoding and handed to the real handler under recover; plus malformed vertices returned by peers (GetVertex reply, sync stream). distinct = trace hash"
}
