package harness

import (
	"bufio"
	"context"
	"fmt"
	"os"
	"sort"
	"strings"
	"time"

	"github.com/bartossh/Computantis/src/accountant"
	"github.com/bartossh/Computantis/src/gossip"
	pb "github.com/bartossh/Computantis/src/protobufcompiled"
	"github.com/bartossh/Computantis/src/spice"
	"github.com/bartossh/Computantis/src/transaction"
	"verif.local/simrt"
)

// C18: a randomized concurrent workload over a loaded node's public API and its background
// loops, in a -race build. Tasks are switched only by sleeping on the fake clock, which
// creates no happens-before edge, so the race detector sees exactly the program's own
// synchronisation while the interleaving stays seeded and replayable.

func raceScenario(w *World, p *Plan, rec *Record) {
	w.noTruncObserve = true // under the race detector the harness must not touch its own state from a node's goroutine
	if err := w.bootstrap(); err != nil {
		rec.Infra = "bootstrap: " + err.Error()
		return
	}
	r0 := newPRNG(p.Seed ^ 0xC18)
	n := w.Nodes[0]
	ctx := context.Background()
	running := 0
	start := func(name string, k int, f func(r *prng)) {
		if !w.opEnabled(k) {
			return
		}
		running++
		r := w.opRNG(k)
		simrt.GoNamed(name, func() {
			if t := simrt.Me(); t != nil {
				t.Label = n.URL
			}
			defer func() {
				if rr := recover(); rr != nil {
					w.onPanic(n, name, rr)
				}
				running--
			}()
			f(r)
		})
	}
	k := 0
	nprop := 2 + r0.Intn(3)
	for i := 0; i < nprop; i++ {
		i := i
		start(fmt.Sprintf("proposer%d", i), k, func(r *prng) {
			for j := 0; j < 3+r.Intn(4); j++ {
				t, err := transaction.New("pay", spice.Melange{SupplementaryCurrency: uint64(1 + r.Intn(1000))}, nil, w.WAddr[1+r.Intn(len(w.WAddr)-1)], w.Wallets[0])
				if err != nil {
					continue
				}
				if r.Chance(0.5) {
					pt, _ := protoOf(&t)
					n.Notary.Propose(ctx, pt)
				} else if v, err := n.Book.CreateLeaf(ctx, &t); err == nil {
					n.Pipe.SendVrx(&v)
				}
				simrt.SleepFor(time.Duration(r.Intn(300)) * time.Millisecond)
			}
		})
		k++
	}
	start("gossip-adds", k, func(r *prng) {
		for j := 0; j < 5+r.Intn(5); j++ {
			kind := []string{"valid", "valid", "orphan", "self-sealed", "valid"}[r.Intn(5)]
			v, err := w.craft(n, &Step{Kind: kind, From: 0, To: 1, Sup: uint64(1 + r.Intn(100))}, w.adversary())
			if err != nil {
				continue
			}
			msg := &pb.VrxMsgGossip{Vertex: gossip.VerifVertexToProto(v), Gossipers: []*pb.Gossiper{signedGossiper(w.adversary(), v.Hash)}}
			n.Goss.Server().GossipVrx(ctx, msg)
			simrt.SleepFor(time.Duration(r.Intn(700)) * time.Millisecond)
		}
	})
	k++
	start("peer-table", k, func(r *prng) {
		// peers come and go (validly signed announcements and discoveries) while gossip is being processed
		for j := 0; j < 6+r.Intn(8); j++ {
			pw := newWalletFrom(newPRNG(p.Seed ^ uint64(0xABC0+j%3)))
			url := fmt.Sprintf("sim://peer%d", j%3)
			at := uint64(simrt.Now())
			digest, sig := pw.Sign(gossip.VerifConnectionData(pw.Address(), url, at))
			cd := &pb.ConnectionData{PublicAddress: pw.Address(), Url: url, CreatedAt: at, Digest: digest[:], Signature: sig}
			if r.Chance(0.5) {
				n.Goss.Server().Announce(ctx, cd)
			} else {
				n.Goss.Server().Discover(ctx, cd)
			}
			simrt.SleepFor(time.Duration(r.Intn(500)) * time.Millisecond)
		}
	})
	k++
	nread := 1 + r0.Intn(3)
	for i := 0; i < nread; i++ {
		start(fmt.Sprintf("reader%d", i), k, func(r *prng) {
			for j := 0; j < 6+r.Intn(8); j++ {
				a := w.WAddr[r.Intn(len(w.WAddr))]
				switch r.Intn(5) {
				case 0:
					n.Book.CalculateBalance(ctx, a)
				case 1:
					n.Book.ReadDAGTransactionsByAddress(ctx, a)
				case 2:
					n.Book.ReadVertex(ctx, w.GenesisVertex.Hash)
					n.Book.ReadTransactionByHash(ctx, w.GenesisVertex.Transaction.Hash)
				case 3:
					wl := w.Wallets[r.Intn(len(w.Wallets))]
					n.Notary.Balance(ctx, signedHashFor(wl, []byte(wl.Address())))
				default:
					n.Book.DagLoaded()
					n.Book.Address()
				}
				simrt.SleepFor(time.Duration(r.Intn(400)) * time.Millisecond)
			}
		})
		k++
	}
	start("streamer", k, func(r *prng) {
		for j := 0; j < 2+r.Intn(3); j++ {
			sctx, cancel := context.WithCancel(ctx)
			ch := n.Book.StreamDAG(sctx)
			limit := 1 + r.Intn(30)
			got := 0
			for {
				v, ok := simrt.Recv2(ch)
				if !ok || v == nil {
					break
				}
				got++
				if got == limit && r.Chance(0.3) {
					cancel() // a peer that goes away mid-stream
				}
			}
			cancel()
			simrt.SleepFor(time.Duration(r.Intn(900)) * time.Millisecond)
		}
	})
	k++
	if w.Cfg.TruncateDiff > 0 {
		start("truncator", k, func(r *prng) {
			for j := 0; j < 1+r.Intn(2); j++ {
				simrt.SleepFor(time.Duration(1500+r.Intn(2500)) * time.Millisecond)
				n.Book.VerifTruncate(ctx)
			}
		})
	}
	k++
	start("retrier", k, func(r *prng) {
		for j := 0; j < 3; j++ {
			simrt.SleepFor(time.Duration(500+r.Intn(1500)) * time.Millisecond)
			n.Book.VerifRetryOne(ctx)
		}
	})
	k++
	deadline := simrt.Now() + int64(4*time.Minute)
	for running > 0 && simrt.Now() < deadline {
		simrt.SleepFor(10 * time.Millisecond)
	}
	if running > 0 {
		w.violate("C08", "no-return", "concurrent-workload", n.Idx, "%d workload tasks did not finish", running)
	}
	// the orphan ticker must have had the chance to fire while admissions happened
	if simrt.Now() < int64(5*time.Second) {
		simrt.SleepFor(5 * time.Second)
	}
	rec.Nontrivial = true
	rec.Sample = map[string]any{"proposers": nprop, "readers": nread, "preempt_p": p.Cfg.PreemptP, "truncate_diff": w.Cfg.TruncateDiff}
	_ = accountant.ErrBreak
}

// parseRaceLog extracts the unordered pairs of access sites from race detector output.
func parseRaceLog(text string) []raceReport {
	var out []raceReport
	blocks := strings.Split(text, "WARNING: DATA RACE")
	for _, b := range blocks[1:] {
		if i := strings.Index(b, "=================="); i >= 0 {
			b = b[:i]
		}
		var sites []string
		var where []string
		sc := bufio.NewScanner(strings.NewReader(b))
		cur := -1
		var frames [][][2]string // per access: (func, file)
		fn := ""
		for sc.Scan() {
			line := sc.Text()
			t := strings.TrimSpace(line)
			switch {
			case strings.HasPrefix(t, "Read at") || strings.HasPrefix(t, "Write at") || strings.HasPrefix(t, "Previous read at") || strings.HasPrefix(t, "Previous write at") ||
				strings.HasPrefix(t, "Atomic") || strings.HasPrefix(t, "Previous atomic"):
				frames = append(frames, nil)
				cur = len(frames) - 1
			case strings.HasPrefix(t, "Goroutine ") || strings.HasPrefix(t, "[failed"):
				cur = -1
			case cur >= 0 && strings.HasPrefix(line, "  ") && !strings.HasPrefix(line, "      ") && t != "":
				fn = t
			case cur >= 0 && strings.HasPrefix(line, "      ") && fn != "":
				frames[cur] = append(frames[cur], [2]string{fn, t})
				fn = ""
			}
		}
		for _, fs := range frames {
			site, file := "", ""
			for _, f := range fs {
				if strings.HasPrefix(f[0], "verif.local/simrt.Entries") || strings.HasPrefix(f[0], "verif.local/simrt.IfaceKeys") {
					continue // the shim reads the repository's map on behalf of the range statement above it
				}
				if strings.Contains(f[0], "bartossh/Computantis/src/") || strings.Contains(f[0], "heimdalr/dag") || strings.HasPrefix(f[0], "verif.local/") {
					site, file = f[0], f[1]
					break
				}
			}
			if site == "" && len(fs) > 0 {
				site, file = fs[0][0], fs[0][1]
			}
			kind := "dep:"
			switch {
			case strings.HasPrefix(site, "verif.local/") || strings.Contains(file, "verif_hooks.go") || strings.Contains(file, "zz_simknobs.go"):
				kind = "own:"
			case strings.Contains(site, "bartossh/Computantis/src/") || strings.Contains(site, "heimdalr/dag"):
				kind = "repo:"
			}
			if i := strings.LastIndex(site, "/"); i >= 0 {
				site = site[i+1:]
			}
			if strings.HasSuffix(site, "()") {
				site = site[:len(site)-2]
			}
			sites = append(sites, site)
			where = append(where, kind+file)
		}
		if len(sites) < 2 {
			continue
		}
		rr := raceReport{A: sites[0], B: sites[1], FileA: where[0], FileB: where[1]}
		if rr.A > rr.B {
			rr.A, rr.B, rr.FileA, rr.FileB = rr.B, rr.A, rr.FileB, rr.FileA
		}
		out = append(out, rr)
	}
	return out
}

type raceReport struct{ A, B, FileA, FileB string }

func (r raceReport) class() string {
	own := func(f string) bool { return strings.HasPrefix(f, "own:") }
	repo := func(f string) bool { return strings.HasPrefix(f, "repo:") }
	switch {
	case own(r.FileA) || own(r.FileB):
		return "machinery"
	case repo(r.FileA) && repo(r.FileB):
		return "repo"
	case repo(r.FileA) || repo(r.FileB):
		return "repo-dependency"
	}
	return "dependency"
}

// raceLogReader returns the race detector output written since the last call.
type raceLogReader struct {
	path string
	off  int64
}

func (r *raceLogReader) next() string {
	if r.path == "" {
		return ""
	}
	f, err := os.Open(r.path)
	if err != nil {
		return ""
	}
	defer f.Close()
	st, _ := f.Stat()
	if st == nil || st.Size() <= r.off {
		return ""
	}
	buf := make([]byte, st.Size()-r.off)
	f.ReadAt(buf, r.off)
	r.off = st.Size()
	return string(buf)
}

func addRaces(rec *Record, text string) {
	if rec == nil {
		return
	}
	seen := map[string]bool{}
	for _, rr := range parseRaceLog(text) {
		key := rr.A + " <-> " + rr.B
		if seen[key] {
			continue
		}
		seen[key] = true
		switch rr.class() {
		case "repo", "repo-dependency":
			rec.Violations = append(rec.Violations, Violation{Property: "C18", Oracle: "race", Cause: key, Detail: shortFile3(rr.FileA) + " / " + shortFile3(rr.FileB)})
		case "machinery":
			if rec.Probes == nil {
				rec.Probes = map[string]int64{}
			}
			rec.Probes["c18-races-in-harness-or-hooks-ignored"]++
		default:
			rec.Notes = append(rec.Notes, "race inside dependencies: "+key)
		}
	}
	sort.Slice(rec.Violations, func(i, j int) bool { return rec.Violations[i].Signature() < rec.Violations[j].Signature() })
}

func shortFile3(f string) string {
	f = strings.Fields(f + " ")[0]
	if i := strings.Index(f, ":"); i >= 0 && i < 5 {
		f = f[i+1:]
	}
	parts := strings.Split(f, "/")
	if len(parts) > 3 {
		parts = parts[len(parts)-3:]
	}
	return strings.Join(parts, "/")
}

func init() {
	scenarios["race"] = raceScenario
	generators["C18"] = func(r *prng, seed uint64, tier string) *Plan {
		cfg := Config{Nodes: 1 + r.Intn(2), Wallets: 3, SupplyCur: 100000, LatMinMS: 2, LatJitMS: 20, DataSize: 2048, StreamBuf: 4, SettleMS: 300, Spread: 1 + r.Intn(4)}
		cfg.PreemptP = []float64{0.01, 0.05, 0.15, 0.3}[r.Intn(4)]
		if r.Chance(0.6) {
			cfg.TruncateDiff = uint64(2 + r.Intn(8))
		}
		if cfg.TruncateDiff > 0 && r.Chance(0.5) {
			// the weight-triggered truncation loop really truncates (and updates its own bookkeeping) during the workload
			cfg.TruncateDiff = uint64(2 + r.Intn(2))
			cfg.TruncateAt = 2*cfg.TruncateDiff + uint64(r.Intn(2))
		}
		return &Plan{Scenario: "race", Cfg: cfg}
	}
	nontrivialRule["C18"] = "one evaluation = one seeded run of a -race build: 2-4 proposer tasks, a gossip-add task (valid, orphan and invalid vertices), 1-3 reader tasks (balance, history, by-hash, notary Balance handler), a DAG stream consumer that sometimes abandons the stream, a truncation task and an orphan-retry task run concurrently against one loaded node while its real retry ticker and truncation loop run; the seed decides the interleaving at every instrumented point; every race report whose access sites lie in the repository is a violation keyed by the unordered pair of sites; distinct = trace hash"
}
