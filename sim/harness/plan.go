package harness

// Step is one plan step. A plan is data: it is generated from the seed before the run,
// written into replay files, and shrunk by the minimiser.
type Step struct {
	Op      string   `json:"op"`
	Node    int      `json:"node"`
	Node2   int      `json:"node2,omitempty"`
	From    int      `json:"from,omitempty"` // wallet index; -(k+1) = wallet of node k
	To      int      `json:"to,omitempty"`
	ToText  string   `json:"to_text,omitempty"` // free-text receiver address instead of a wallet: b32, empty, lastvertex, vhash, huge
	Cur     uint64   `json:"cur,omitempty"`
	Sup     uint64   `json:"sup,omitempty"`
	Data    int      `json:"data,omitempty"` // length of the data payload (contract)
	DelayMS int      `json:"delay_ms"`
	NoWait  bool     `json:"nowait,omitempty"`
	Ref     int      `json:"ref,omitempty"`
	Kind    string   `json:"kind,omitempty"`
	K       int      `json:"k,omitempty"`
	Via     string   `json:"via,omitempty"` // notary | ledger
	Links   [][2]int `json:"links,omitempty"`
}

// Plan is one run.
type Plan struct {
	Seed     uint64 `json:"seed"`
	Property string `json:"property"`
	Scenario string `json:"scenario"`
	Cfg      Config `json:"cfg"`
	Steps    []Step `json:"steps"`
}

// StepResult is what a step produced.
type StepResult struct {
	Done    bool
	Err     string
	Trx     Hash
	Vertex  Hash
	HasVrx  bool
	Started int64
	Ended   int64
	Panic   string
	Value   string
}
