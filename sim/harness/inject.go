package harness

import (
	"context"
	"crypto/sha256"
	"fmt"
	"time"

	"github.com/mr-tron/base58"

	"github.com/bartossh/Computantis/src/accountant"
	"github.com/bartossh/Computantis/src/gossip"
	pb "github.com/bartossh/Computantis/src/protobufcompiled"
	"github.com/bartossh/Computantis/src/spice"
	"github.com/bartossh/Computantis/src/transaction"
	"github.com/bartossh/Computantis/src/wallet"
	"verif.local/simrt"
)

func (w *World) adversary() *wallet.Wallet {
	if w.adv == nil {
		w.adv = newWalletFrom(newPRNG(w.Seed ^ 0xADADAD))
	}
	return w.adv
}

func signedGossiper(wl *wallet.Wallet, item Hash) *pb.Gossiper {
	d, s := wl.Sign(gossip.VerifGossiperMessage(wl.Address(), item))
	return &pb.Gossiper{Address: wl.Address(), Digest: d[:], Signature: s}
}

// tipsOf returns up to two tips of the node's current ledger with the max weight.
func (w *World) tipsOf(n *Node) (l, r Hash, weight uint64, ok bool) {
	s := w.snapshot(n)
	if s == nil || len(s.Leaves) == 0 {
		return
	}
	me := simrt.Me()
	ls := append([]string{}, s.Leaves...)
	if me != nil && len(ls) > 1 {
		k := me.Intn(len(ls))
		ls[0], ls[k] = ls[k], ls[0]
	}
	l, _ = idHash(ls[0])
	r = l
	if len(ls) > 1 {
		r, _ = idHash(ls[1])
	}
	for _, h := range []Hash{l, r} {
		if sv := s.Live[h]; sv != nil && sv.V.Weight > weight {
			weight = sv.V.Weight
		}
	}
	return l, r, weight + 1, true
}

// craft builds a vertex sealed by `sealer` over the node's current tips.
func (w *World) craft(n *Node, s *Step, sealer *wallet.Wallet) (*accountant.Vertex, error) {
	iss := w.walletOf(s.From)
	rcv := w.walletOf(s.To)
	amount := spice.Melange{Currency: s.Cur, SupplementaryCurrency: s.Sup}
	var data []byte
	if s.Data > 0 {
		data = w.rng.Bytes(s.Data)
	}
	var issuer transaction.Signer = iss
	switch s.Kind {
	case "self-sealed":
		issuer = sealer
	case "genesis-issuer":
		issuer = w.Nodes[0].W
	case "self-sealed-alias":
		// the sealing wallet issues the transaction under another spelling of its own address
		issuer = aliasOf(sealer, byte(1+w.rng.Intn(250)))
	case "genesis-issuer-alias":
		issuer = aliasOf(w.Nodes[0].W, byte(1+w.rng.Intn(250)))
	}
	trx, err := transaction.New("crafted", amount, data, rcv.Address(), issuer)
	if err != nil {
		return nil, err
	}
	if s.Kind == "empty" {
		trx, err = transaction.New("crafted", spice.Melange{}, []byte{}, rcv.Address(), iss)
		if err != nil {
			return nil, err
		}
	}
	l, r, wt, ok := w.tipsOf(n)
	if !ok {
		return nil, fmt.Errorf("no tips")
	}
	if s.Via == "old-both" {
		// both parents are the lightest live vertex that already has children (typically genesis)
		if sn := w.snapshot(n); sn != nil {
			var best *SVertex
			var bh Hash
			lv := map[Hash]*accountant.Vertex{}
			for h, sv := range sn.Live {
				lv[h] = &sv.V
			}
			for _, h := range sortedHashes(lv) {
				if sv := sn.Live[h]; len(sv.GChild) > 0 && (best == nil || sv.V.Weight < best.V.Weight) {
					best, bh = sv, h
				}
			}
			if best != nil {
				l, r, wt = bh, bh, best.V.Weight+1
			}
		}
	}
	if s.Via == "old-left" || s.Via == "old-right" {
		// one parent is a vertex that already has children, the other a tip
		if sn := w.snapshot(n); sn != nil {
			var olds []Hash
			for h, sv := range sn.Live {
				if len(sv.GChild) > 0 {
					olds = append(olds, h)
				}
			}
			sortHashes(olds)
			if len(olds) > 0 {
				o := olds[w.rng.Intn(len(olds))]
				if ow := sn.Live[o].V.Weight + 1; ow > wt {
					wt = ow
				}
				if s.Via == "old-left" {
					l = o
				} else {
					l, r = r, o
					if s.Via == "old-right" {
						l, r = l, o
					}
				}
			}
		}
	}
	if s.Kind == "orphan" {
		copy(l[:], w.rng.Bytes(32))
		r = l
	}
	if s.Kind == "forged-weight" {
		// a sealing node is free to write any weight into the vertex it signs
		wt = 1<<62 + uint64(w.rng.Intn(1000))
		w.probe("forged-weight-vertex-offered")
	}
	v, err := accountant.NewVertex(trx, l, r, wt, sealer)
	if err != nil {
		return nil, err
	}
	return &v, nil
}

// doInject delivers a crafted vertex to node n as gossip from an adversarial sealing node
// that is not part of the honest network.
func (w *World) doInject(i int, s *Step, n *Node, res *StepResult) {
	sealer := w.adversary()
	if s.K > 0 && s.K <= len(w.Nodes) {
		sealer = w.Nodes[s.K-1].W // sealed with an honest node's key (that node is byzantine in this step)
	}
	var parent *accountant.Vertex
	if s.Via == "ahead" {
		// the crafted vertex overtakes its own parent: P (a valid contract on the current tips) is
		// built first, the vertex is built on P and delivered before P
		ps := Step{Kind: "valid", From: s.From, To: s.To, Data: 8 + s.Data}
		pv, err := w.craft(n, &ps, sealer)
		if err != nil || pv.Transaction.IssuerAddress == sealer.Address() {
			res.Err = "craft parent"
			res.Done = true
			return
		}
		parent = pv
		w.Archive.addVertex(pv, "crafted")
		w.Crafted = append(w.Crafted, *pv)
	}
	v, err := w.craft(n, s, sealer)
	if err != nil {
		res.Err = "craft: " + err.Error()
		res.Done = true
		return
	}
	if parent != nil {
		nv, err := accountant.NewVertex(v.Transaction, parent.Hash, parent.Hash, parent.Weight+1, sealer)
		if err != nil {
			res.Err = "craft: " + err.Error()
			res.Done = true
			return
		}
		v = &nv
	}
	w.Archive.addVertex(v, "crafted")
	w.Crafted = append(w.Crafted, *v)
	res.Vertex, res.HasVrx, res.Trx = v.Hash, true, v.Transaction.Hash
	before := w.snapshot(n)
	send := func(tag string, vx *accountant.Vertex, r *StepResult) {
		msg := &pb.VrxMsgGossip{Vertex: gossip.VerifVertexToProto(vx), Gossipers: []*pb.Gossiper{signedGossiper(sealer, vx.Hash)}}
		w.spawnOp(fmt.Sprintf("adv->n%d:%s#%d", n.Idx, tag, i), n, r, func(ctx context.Context) error {
			req := &pb.VrxMsgGossip{}
			if err := roundTrip(msg, req); err != nil {
				return err
			}
			return w.Net.deliver(ctx, -1, n, "GossipVrx", vx.Hash, gossiperAddrs(req.Gossipers), false, func(c context.Context) error {
				_, e := n.Goss.Server().GossipVrx(c, req)
				return e
			})
		})
	}
	send("inject", v, res)
	if parent != nil {
		if !w.waitOps(opBudget) {
			w.violate("C08", "no-return", "gossip-add", n.Idx, "gossip add did not return within %v", opBudget)
			return
		}
		w.probe("c10-vertex-offered-ahead-of-its-parent")
		var pres StepResult
		send("inject-parent", parent, &pres)
		if !w.waitOps(opBudget) {
			w.violate("C08", "no-return", "gossip-add", n.Idx, "gossip add did not return within %v", opBudget)
			return
		}
		// two retry ticks: the parked vertex is replayed now that its parent is there
		tick := time.Duration(accountant.VerifConstants()["repeaterTickNS"])
		if tick <= 0 {
			tick = 2 * time.Second
		}
		simrt.SleepFor(2*tick + 100*time.Millisecond)
	}
	if s.NoWait {
		return
	}
	if !w.waitOps(opBudget) {
		w.violate("C08", "no-return", "gossip-add", n.Idx, "gossip add did not return within %v", opBudget)
		return
	}
	after := w.snapshot(n)
	if after != nil {
		w.checkSnap(after)
	}
	if parent != nil && after != nil {
		if _, in := after.Live[parent.Hash]; in {
			w.probe("c10-overtaken-parent-admitted-later")
		}
	}
	mustReject := s.Kind == "self-sealed" || s.Kind == "genesis-issuer" || s.Kind == "empty" || s.Kind == "self-sealed-alias" || s.Kind == "genesis-issuer-alias"
	if mustReject && before != nil && after != nil {
		w.probe("c10-forbidden-vertex-offered")
		if _, in := after.Live[v.Hash]; in {
			w.violate("C10", "admitted", "forbidden-vertex-in-ledger:"+s.Kind, n.Idx, "vertex %s", hx(v.Hash))
		}
	}
	if s.Kind == "orphan" && after != nil {
		parked := false
		for _, p := range after.Parked {
			if p.Vertex.Hash == v.Hash {
				parked = true
			}
		}
		if parked {
			w.probe("orphan-parked")
		}
	}
}

// streamCorruption produces the extra stream items for a single stream corruption.
func (w *World) streamCorruption(kind string, cur *pb.Vertex, seen []*pb.Vertex) []*pb.Vertex {
	adv := w.adversary()
	switch kind {
	case "malformed":
		if w.streamBad != nil {
			return []*pb.Vertex{w.streamBad}
		}
		return nil
	case "dup-vertex":
		cp := &pb.Vertex{}
		roundTrip(cur, cp)
		return []*pb.Vertex{cp}
	case "dup-trx":
		// the same transaction under a new (adversary-sealed) vertex
		v := gossip.VerifProtoToVertex(cur)
		nv, err := accountant.NewVertex(v.Transaction, v.LeftParentHash, v.RightParentHash, v.Weight, adv)
		if err != nil {
			return nil
		}
		return []*pb.Vertex{gossip.VerifVertexToProto(&nv)}
	case "unknown-parent":
		v := gossip.VerifProtoToVertex(cur)
		trx, err := transaction.New("stream", spice.Melange{Currency: 1}, nil, w.WAddr[0], w.Wallets[1%len(w.Wallets)])
		if err != nil {
			return nil
		}
		var p Hash
		copy(p[:], w.rng.Bytes(32))
		nv, _ := accountant.NewVertex(trx, p, p, v.Weight+1, adv)
		return []*pb.Vertex{gossip.VerifVertexToProto(&nv)}
	case "unknown-right-parent", "unknown-left-parent":
		// only ONE declared parent is unknown: the other one is the zero hash (as in genesis) or a known vertex
		v := gossip.VerifProtoToVertex(cur)
		trx, err := transaction.New("stream", spice.Melange{Currency: 1}, nil, w.WAddr[0], w.Wallets[1%len(w.Wallets)])
		if err != nil {
			return nil
		}
		var p, other Hash
		copy(p[:], w.rng.Bytes(32))
		if len(seen) > 1 && w.rng.Chance(0.5) {
			copy(other[:], seen[0].Hash) // a vertex the stream has already delivered
		}
		l, r := other, p
		if kind == "unknown-left-parent" {
			l, r = p, other
		}
		nv, _ := accountant.NewVertex(trx, l, r, v.Weight+1, adv)
		return []*pb.Vertex{gossip.VerifVertexToProto(&nv)}
	case "second-self-sealed":
		v := gossip.VerifProtoToVertex(cur)
		trx, err := transaction.New("stream", spice.Melange{Currency: 1}, nil, w.WAddr[0], adv)
		if err != nil {
			return nil
		}
		nv, _ := accountant.NewVertex(trx, v.Hash, v.Hash, v.Weight+1, adv)
		return []*pb.Vertex{gossip.VerifVertexToProto(&nv)}
	case "empty-trx":
		v := gossip.VerifProtoToVertex(cur)
		trx, err := transaction.New("stream", spice.Melange{}, nil, w.WAddr[0], w.Wallets[1%len(w.Wallets)])
		if err != nil {
			return nil
		}
		nv, _ := accountant.NewVertex(trx, v.Hash, v.Hash, v.Weight+1, adv)
		return []*pb.Vertex{gossip.VerifVertexToProto(&nv)}
	}
	return nil
}

// aliasWallet signs with a wallet's key but presents its address with another version byte: the same
// public key and a checksum that is right for that version byte - a second spelling of the same wallet.
type aliasWallet struct {
	w    *wallet.Wallet
	addr string
}

func (a aliasWallet) Address() string { return a.addr }
func (a aliasWallet) Sign(message []byte) (digest [32]byte, signature []byte) {
	return a.w.Sign(message)
}

func aliasOf(wl *wallet.Wallet, version byte) aliasWallet {
	body := append([]byte{version}, wl.Public...)
	h1 := sha256.Sum256(body)
	h2 := sha256.Sum256(h1[:])
	return aliasWallet{w: wl, addr: base58.Encode(append(body, h2[:4]...))}
}
