package harness

import (
	"encoding/json"
	"os"
	"path/filepath"
	"sort"
	"strings"
)

var levelOf = map[string]string{"C20": "fault_enumeration"}

var nontrivialRule = map[string]string{}

// nontrivialProbes: a run counts as non-trivial for a property when at least one of these
// probes fired in it (the probes are counted by the oracles themselves).
var nontrivialProbes = map[string][]string{
	"C01": {"c01-confirmed-transfer-checked"},
	"C02": {"c02-evaluated"},
	"C03": {"c03-duplicate-offered"},
	"C05": {"c05-api-ops", "c05-bank-ops", "c05-boundary-amount-offered"},
	"C06": {"c06-balance-queries"},
	"C07": {"c07-truncate-performed"},
	"C08": {"c08-early-exit-or-cancel", "c07-truncate-performed", "c08-stream-consumed"},
	"C09": {"c09-created-vertex-checked"},
	"C10": {"c10-forbidden-vertex-offered", "c10-forbidden-proposal-offered"},
}

func isNontrivial(prop string, r *Record) bool {
	ps, ok := nontrivialProbes[prop]
	if !ok {
		return r.Nontrivial
	}
	for _, p := range ps {
		if r.Probes[p] > 0 {
			return true
		}
	}
	return false
}

func writeEvidence(o *DriveOpts, recs []*Record, sigs map[string]*sigInfo, other map[string]int, knownSeen []string, nviol int, infra []string, skipped int, wall float64) error {
	probes := map[string]int64{}
	faults := map[string]int64{}
	sched := map[string]int64{}
	shapes := map[string]bool{}
	traces := map[string]bool{}
	ntTraces := map[string]bool{}
	var simNS int64
	var leaks int
	scen := map[string]int{}
	for _, r := range recs {
		for k, v := range r.Probes {
			probes[k] += v
		}
		for k, v := range r.Faults {
			faults[k] += v
		}
		for k, v := range r.Sched {
			sched[k] += v
		}
		for _, s := range r.Shapes {
			shapes[s] = true
		}
		traces[r.Trace] = true
		if isNontrivial(o.Property, r) {
			ntTraces[r.Trace] = true
		}
		simNS += r.SimNS
		leaks += len(r.Leaks)
		scen[r.Scenario]++
	}
	level := levelOf[o.Property]
	if level == "" {
		level = "exploration"
	}
	// samples: two plans (abridged) and one violation-free record
	var samples []any
	for i, r := range recs {
		if i >= 2 {
			break
		}
		p := GeneratePlan(o.Property, o.Tier, r.Seed)
		s := map[string]any{"seed": r.Seed, "scenario": r.Scenario, "trace_hash": r.Trace, "sim_seconds": float64(r.SimNS) / 1e9, "probes": r.Probes, "faults": r.Faults}
		if p != nil {
			steps := p.Steps
			if len(steps) > 12 {
				steps = steps[:12]
			}
			s["cfg"] = p.Cfg
			s["first_steps"] = steps
			s["steps_total"] = len(p.Steps)
		}
		if r.Sample != nil {
			s["case"] = r.Sample
		}
		samples = append(samples, s)
	}
	if len(samples) == 0 {
		samples = append(samples, "no run completed")
	}
	var sigCounts []map[string]any
	var names []string
	for s := range sigs {
		names = append(names, s)
	}
	sort.Strings(names)
	for _, s := range names {
		sigCounts = append(sigCounts, map[string]any{"signature": s, "runs": sigs[s].count, "first_seed": sigs[s].first.Seed})
	}
	rule := nontrivialRule[o.Property]
	if rule == "" {
		rule = "one evaluation = one simulated run generated from (VERIF_SEED, index); distinct = distinct trace hash (hash of the merged event log: every task start/exit, step result, injected fault); non-trivial = at least one of these probes fired in the run: " + strings.Join(nontrivialProbes[o.Property], ", ")
	}
	hours := wall / 3600
	cov := map[string]any{
		"evaluations":                 len(recs),
		"distinct_nontrivial":         len(ntTraces),
		"rule":                        rule,
		"samples":                     samples,
		"distinct_traces":             len(traces),
		"state_signatures":            len(shapes),
		"runs_per_hour":               int(float64(len(recs)) / maxf(hours, 1e-9)),
		"simulated_seconds_total":     float64(simNS) / 1e9,
		"faults_fired":                faults,
		"probes":                      probes,
		"scheduler":                   sched,
		"scenarios":                   scen,
		"tasks_left_blocked":          leaks,
		"signatures":                  sigCounts,
		"known_findings_seen":         knownSeen,
		"other_signatures_seen":       other,
		"other_signatures_first_seed": o.otherSeed,
		"runs_skipped_by_budget":      skipped * o.ChunkSize,
		"workers":                     o.Workers,
		"seeds":                       map[string]any{"verif_seed": o.Seed, "first_run_seed": o.Seed*1_000_003 + 17, "runs": o.Runs},
		"infra_messages":              infra,
		"exhaustive":                  false,
		"components": map[string]any{
			"real": []string{"accountant", "gossip (handlers, forwarding, discovery, sync client)", "notaryserver handlers", "webhooksserver handler", "cache (bigcache)", "dataprovider", "pipe", "spice", "transaction", "transformers", "wallet", "aeswrapper", "fileoperations", "heimdalr/dag v1.3.1", "badger v4 (in-memory)", "msgpack x2", "protobuf marshal/unmarshal"},
			"stub": []string{"gRPC transport (SimNet behind the generated client interface)", "logger (recording)", "telemetry (no-op)", "NATS publisher (nil)"},
		},
	}
	for k, v := range o.Manifest {
		cov[k] = v
	}
	ev := map[string]any{
		"property_id": o.Property,
		"tier":        o.Tier,
		"seed":        o.Seed,
		"level":       level,
		"coverage":    cov,
		"assumptions": []string{
			"sources are compiled with go1.26.8 (testing/synctest, cryptotest) instead of the shipping toolchain; language version stays go 1.21",
			"gRPC is replaced by SimNet; request contexts are not cancelled when a handler returns unless the run says ctx_cancel_on_return",
			"badger runs in memory as in the repository's own tests; dependencies are not instrumented (they run to quiescence between task steps)",
			"the instrumenter's rewrites (go, channel operations, locks, map ranges, storage call sites, knobs) preserve semantics",
			"a clean batch is evidence, not proof: schedules, faults and inputs are sampled from the seed",
		},
		"wall_s":     wall,
		"violations": nviol,
	}
	raw, err := json.MarshalIndent(ev, "", " ")
	if err != nil {
		return err
	}
	os.MkdirAll(filepath.Dir(o.Evidence), 0o755)
	return os.WriteFile(o.Evidence, raw, 0o644)
}

func maxf(a, b float64) float64 {
	if a > b {
		return a
	}
	return b
}
