package harness

import (
	"bytes"
	"crypto/ed25519"
	"crypto/sha256"
	"encoding/binary"
	"fmt"
	"math/big"
	"sort"

	"github.com/mr-tron/base58"

	"github.com/bartossh/Computantis/src/accountant"
	"github.com/bartossh/Computantis/src/transaction"
)

// addrKey decodes a wallet address independently of the repo's code:
// base58( version | public key | first 4 bytes of sha256(sha256(version|key)) ).
func addrKey(addr string) (ed25519.PublicKey, bool) {
	raw, err := base58.Decode(addr)
	if err != nil || len(raw) != 1+32+4 {
		return nil, false
	}
	body, cs := raw[:33], raw[33:]
	h1 := sha256.Sum256(body)
	h2 := sha256.Sum256(h1[:])
	if !bytes.Equal(cs, h2[:4]) {
		return nil, false
	}
	return ed25519.PublicKey(body[1:]), true
}

func trxMessage(t *transaction.Transaction) []byte {
	var b bytes.Buffer
	b.WriteString(t.Subject)
	b.Write(t.Data)
	b.WriteString(t.IssuerAddress)
	b.WriteString(t.ReceiverAddress)
	var x [8]byte
	binary.LittleEndian.PutUint64(x[:], uint64(t.CreatedAt.UnixNano()))
	b.Write(x[:])
	binary.LittleEndian.PutUint64(x[:], t.Spice.Currency)
	b.Write(x[:])
	binary.LittleEndian.PutUint64(x[:], t.Spice.SupplementaryCurrency)
	b.Write(x[:])
	return b.Bytes()
}

func sigOK(addr string, digest Hash, sig []byte) bool {
	k, ok := addrKey(addr)
	if !ok {
		return false
	}
	return ed25519.Verify(k, digest[:], sig)
}

// refTrxOK recomputes the transaction's hash and signatures from its fields.
func refTrxOK(t *transaction.Transaction) bool {
	d := sha256.Sum256(trxMessage(t))
	if d != t.Hash {
		return false
	}
	if !sigOK(t.IssuerAddress, d, t.IssuerSignature) {
		return false
	}
	if len(t.ReceiverSignature) != 0 && !sigOK(t.ReceiverAddress, d, t.ReceiverSignature) {
		return false
	}
	return true
}

// refVertexOK recomputes the vertex digest (transaction hash | left | right | created-at ns | weight)
// and checks the sealing signature.
func refVertexOK(v *accountant.Vertex) bool {
	var b bytes.Buffer
	b.Write(v.Transaction.Hash[:])
	b.Write(v.LeftParentHash[:])
	b.Write(v.RightParentHash[:])
	var x [8]byte
	binary.LittleEndian.PutUint64(x[:], uint64(v.CreatedAt.UnixNano()))
	b.Write(x[:])
	binary.LittleEndian.PutUint64(x[:], v.Weight)
	b.Write(x[:])
	d := sha256.Sum256(b.Bytes())
	if d != v.Hash {
		return false
	}
	return sigOK(v.SignerPublicAddress, d, v.Signature)
}

func isTransfer(t *transaction.Transaction) bool {
	return t.Spice.Currency != 0 || t.Spice.SupplementaryCurrency != 0
}

func sameTrx(a, b *transaction.Transaction) bool {
	return a.Hash == b.Hash && a.IssuerAddress == b.IssuerAddress && a.ReceiverAddress == b.ReceiverAddress &&
		a.Subject == b.Subject && bytes.Equal(a.Data, b.Data) && a.CreatedAt.UnixNano() == b.CreatedAt.UnixNano() &&
		bytes.Equal(a.IssuerSignature, b.IssuerSignature) && bytes.Equal(a.ReceiverSignature, b.ReceiverSignature) &&
		a.Spice.Currency == b.Spice.Currency && a.Spice.SupplementaryCurrency == b.Spice.SupplementaryCurrency
}

func isGenesisShape(v *accountant.Vertex) bool {
	return v.LeftParentHash == zeroHash && v.RightParentHash == zeroHash
}

// refFunds evaluates the C01 inequality for v on snapshot s: issuer inflow over
// (declared ancestors of v ∪ stored ∪ v) must cover issuer outflow over the same set.
// storedOf says which stored set counts as "already checkpointed".
func (w *World) refFunds(s *Snap, storedOf *Snap, v *accountant.Vertex) (ok bool, in, out *big.Int, missing []Hash) {
	set := s.ancestors(w.Archive, v, &missing)
	if storedOf != nil {
		for h, sv := range storedOf.Stored {
			if _, dup := set[h]; !dup {
				set[h] = &sv.V
			}
		}
	}
	set[v.Hash] = v
	in, out = flows(v.Transaction.IssuerAddress, set)
	return in.Cmp(out) >= 0, in, out, missing
}

// nodeState is what the oracles remember per node between snapshots.
type nodeState struct {
	prev          *Snap
	parkedKnown   map[Hash][2]int // parked vertices all of whose parents were in the ledger at the previous snapshot -> retry count
	confirmedSeen map[Hash]bool
	baseline      map[Hash]bool // vertices obtained by sync (taken as given)
	everLive      map[Hash]bool
	// tainted: wallets (other than the genesis issuer) whose net flow over the stored vertices was
	// negative at some snapshot. No checkpoint can represent that (the code keeps the gross inflow),
	// so everything later validated against that wallet's checkpoint is a consequence of one
	// root cause (merged double spend or trusted exemption, then truncation), reported under its own cause.
	tainted map[string]bool
	// gross: wallets whose checkpoint differs from the net flow of the stored vertices because the
	// gross in- or outflow of the stored part does not fit the amount type (known C07 finding);
	// later validation against that wallet is a consequence of it.
	gross map[string]bool
}

func (w *World) nstate(node int) *nodeState {
	if w.nstates == nil {
		w.nstates = map[int]*nodeState{}
	}
	st := w.nstates[node]
	if st == nil {
		st = &nodeState{confirmedSeen: map[Hash]bool{}, baseline: map[Hash]bool{}, everLive: map[Hash]bool{}, tainted: map[string]bool{}, gross: map[string]bool{}}
		w.nstates[node] = st
	}
	return st
}

// checkSnap runs every invariant that can be judged from a snapshot (and its predecessor).
func (w *World) checkSnap(cur *Snap) {
	st := w.nstate(cur.Node)
	prev := st.prev
	if prev != nil && cur.At < prev.At {
		return // an older snapshot judged late (two tasks observe the same node): the newer one has been judged already
	}
	w.shapes[cur.shape()] = true
	if !cur.Loaded {
		st.prev = cur
		return
	}
	w.noteTainted(cur, st)
	for _, k := range cur.StrayKeys {
		w.violate("C07", "store", "record-that-is-neither-vertex-nor-funds-in-vertex-store", cur.Node, "key %q", shortAddr(k))
	}
	// a parked vertex all of whose declared parents are in the ledger, one of them only in storage: the retry
	// has to admit it (or refuse it for a reason of its own). Judged by behaviour: the vertex was seen parked
	// with all its parents known, and is seen parked again with a higher retry count - it was offered again and
	// sent back to wait for parents the ledger holds. Only parents that cannot leave the ledger in between count:
	// checkpointed ones and live ones that have a child (a tip can be dropped as invalid and be delivered again)
	// the buffer may hold several copies of one vertex (it arrived more than once), each with its own count:
	// per vertex the number of copies and the sum of their counts are compared. A fresh arrival adds a copy, a
	// copy that is admitted or given up leaves; only a retry that parks the vertex again raises the sum without
	// adding a copy
	parkedKnown := map[Hash][2]int{}
	parkedVrx := map[Hash]accountant.Vertex{}
	for _, pk := range cur.Parked {
		v := pk.Vertex
		all, stored := true, false
		for _, ph := range declParents(&v) {
			if lv, ok := cur.Live[ph]; ok {
				if len(lv.GChild) == 0 {
					all = false // a live tip may be dropped as invalid and come back: not continuously there
				}
				continue
			}
			if _, ok := cur.Stored[ph]; ok {
				stored = true
				continue
			}
			all = false
		}
		if all && stored {
			e := parkedKnown[Hash(v.Hash)]
			parkedKnown[Hash(v.Hash)] = [2]int{e[0] + 1, e[1] + pk.Repeated}
			parkedVrx[Hash(v.Hash)] = v
		}
	}
	var pks []Hash
	for h := range parkedKnown {
		pks = append(pks, h)
	}
	sort.Slice(pks, func(i, j int) bool { return bytes.Compare(pks[i][:], pks[j][:]) < 0 })
	for _, h := range pks {
		e := parkedKnown[h]
		if was, ok := st.parkedKnown[h]; ok && e[0] <= was[0] && e[1] > was[1] {
			v := parkedVrx[h]
			w.violate("C07", "transparent", "vertex-parked-for-ever-behind-checkpointed-parent", cur.Node, "vertex %s weight %d: retried and parked again (%d copies, retry counts %d -> %d) although every declared parent is in the ledger", hx(v.Hash), v.Weight, e[0], was[1], e[1])
		}
	}
	st.parkedKnown = parkedKnown
	w.oracleC09(cur)
	w.oracleC03(cur)
	w.oracleC10(cur)
	w.oracleC05hist(cur)
	w.oracleC01(cur, prev, st)
	// C07 at all times (also under the weight-triggered truncation, which no step brackets): what was
	// confirmed stays in the ledger. A confirmed vertex can legitimately disappear only after its
	// children did (an invalid tip is dropped, its parent becomes a tip again and may be dropped in turn:
	// C01's mechanism); a vertex that is gone from graph and storage while one of its children is still
	// there was lost.
	if prev != nil && prev.Loaded {
		ch := prev.liveChildrenByDecl()
		for _, h := range sortedHashes(prev.confirmed()) {
			if cur.get(h) != nil {
				continue
			}
			for _, c := range ch[h] {
				if cur.get(c) != nil {
					w.violate("C07", "lost", "confirmed-vertex-lost-while-its-child-remains", cur.Node, "vertex %s (child %s still in the ledger; stored before %d now %d)", hx(h), hx(c), len(prev.Stored), len(cur.Stored))
					break
				}
			}
		}
	}
	if len(cur.Stored) > 0 && (prev == nil || len(prev.Stored) != len(cur.Stored)) {
		w.checkCheckpointFunds(cur)
		if prev != nil && len(prev.Stored) < len(cur.Stored) {
			w.probe("c07-stored-set-grew")
		}
	}
	for h := range cur.Live {
		st.everLive[h] = true
	}
	st.prev = cur
}

func (w *World) noteTainted(s *Snap, st *nodeState) {
	if len(s.Stored) == 0 {
		return
	}
	stored := map[Hash]*accountant.Vertex{}
	addrs := map[string]bool{}
	gi := ""
	for h, sv := range s.Stored {
		stored[h] = &sv.V
		if isGenesisShape(&sv.V) {
			gi = sv.V.Transaction.IssuerAddress
		}
		if isTransfer(&sv.V.Transaction) {
			addrs[sv.V.Transaction.IssuerAddress] = true
		}
	}
	for a := range addrs {
		if a == gi {
			continue
		}
		in, out := flows(a, stored)
		if !st.tainted[a] && in.Cmp(out) < 0 {
			st.tainted[a] = true
			w.probe("checkpoint-cannot-represent-overdrawn-wallet")
		}
		if !st.gross[a] && in.Cmp(out) >= 0 && (in.Cmp(maxMel) >= 0 || out.Cmp(maxMel) >= 0) {
			got := new(big.Int)
			if f, ok := s.Funds[a]; ok {
				got = melVal(f)
			}
			if got.Cmp(new(big.Int).Sub(in, out)) != 0 {
				st.gross[a] = true
				w.probe("checkpoint-cannot-represent-gross-flow")
			}
		}
	}
}

// ---------- C09 ----------

func (w *World) oracleC09(s *Snap) {
	n := s.Node
	for _, id := range s.BadIDs {
		w.violate("C09", "id", "vertex-id-not-32-bytes", n, "graph id %q", id)
	}
	for h, sv := range s.Live {
		if sv.V.Hash != h {
			w.violate("C09", "id", "stored-under-foreign-hash", n, "id %s holds vertex %s", hx(h), hx(sv.V.Hash))
		}
		if !refVertexOK(&sv.V) || !refTrxOK(&sv.V.Transaction) {
			// tolerate a self-consistent change of digest layout: ask the code's own verifier
			if err := w.Nodes[n].Book.VerifVerifyVertex(&sv.V); err != nil {
				w.violate("C09", "digest", "hash-or-signature-does-not-recompute", n, "vertex %s: %v", hx(h), err)
			} else {
				w.probe("digest-layout-differs-from-reference")
			}
		}
		want := map[string]bool{}
		if !isGenesisShape(&sv.V) {
			for _, p := range declParents(&sv.V) {
				if _, live := s.Live[p]; live {
					want[string(p[:])] = true
				} else if _, stored := s.Stored[p]; !stored {
					w.violate("C09", "parents", "declared-parent-neither-live-nor-stored", n, "vertex %s parent %s", hx(h), hx(p))
				}
			}
		}
		got := map[string]bool{}
		for _, p := range sv.GParents {
			got[p] = true
		}
		for p := range want {
			if !got[p] {
				w.violate("C09", "edges", "missing-edge-from-live-declared-parent", n, "vertex %s lacks edge from %x", hx(h), p[:6])
			}
		}
		for p := range got {
			if !want[p] {
				w.violate("C09", "edges", "edge-from-undeclared-parent", n, "vertex %s has edge from %x", hx(h), p[:6])
			}
		}
	}
	// acyclic (Kahn over graph edges)
	indeg := map[string]int{}
	for id, sv := range s.LiveIDs {
		indeg[id] += 0
		for range sv.GParents {
			indeg[id]++
		}
	}
	var q []string
	for id, d := range indeg {
		if d == 0 {
			q = append(q, id)
		}
	}
	sort.Strings(q)
	seen := 0
	for len(q) > 0 {
		id := q[0]
		q = q[1:]
		seen++
		if sv := s.LiveIDs[id]; sv != nil {
			for _, c := range sv.GChild {
				indeg[c]--
				if indeg[c] == 0 {
					q = append(q, c)
				}
			}
		}
	}
	if seen != len(s.LiveIDs) {
		w.violate("C09", "acyclic", "cycle-in-live-graph", n, "%d of %d vertices sorted", seen, len(s.LiveIDs))
	}
}

// checkCreated judges a vertex a node has just created against the snapshot taken before.
func (w *World) checkCreated(before *Snap, v *accountant.Vertex) {
	if before == nil {
		return
	}
	n := before.Node
	tips := map[Hash]bool{}
	for _, l := range before.Leaves {
		if h, ok := idHash(l); ok {
			tips[h] = true
		}
	}
	var maxW uint64
	for _, p := range declParents(v) {
		pv := before.get(p)
		if pv == nil || !pv.Live {
			w.violate("C09", "created", "parent-not-live-before-creation", n, "vertex %s parent %s", hx(v.Hash), hx(p))
			continue
		}
		if !tips[p] {
			w.violate("C09", "created", "parent-was-not-a-tip", n, "vertex %s parent %s", hx(v.Hash), hx(p))
		}
		if pv.V.Weight > maxW {
			maxW = pv.V.Weight
		}
	}
	if v.Weight != maxW+1 {
		w.violate("C09", "created", "weight-not-max-parent-plus-one", n, "vertex %s weight %d, parents max %d", hx(v.Hash), v.Weight, maxW)
	}
}

// ---------- C03 ----------

func (w *World) oracleC03(s *Snap) {
	n := s.Node
	holders := map[Hash][]Hash{}
	for h, sv := range s.Live {
		holders[sv.V.Transaction.Hash] = append(holders[sv.V.Transaction.Hash], h)
		if _, both := s.Stored[h]; both {
			w.violate("C03", "vertex-twice", "vertex-both-live-and-stored", n, "vertex %s", hx(h))
		}
	}
	for h, sv := range s.Stored {
		holders[sv.V.Transaction.Hash] = append(holders[sv.V.Transaction.Hash], h)
		if sv.V.Hash != h {
			w.violate("C03", "stored-key", "stored-under-foreign-hash", n, "key %s holds %s", hx(h), hx(sv.V.Hash))
		}
	}
	for _, h := range s.StoredDup {
		w.violate("C03", "vertex-twice", "vertex-stored-twice", n, "vertex %s", hx(h))
	}
	for t, hs := range holders {
		if len(hs) > 1 {
			where := "live"
			nl := 0
			for _, h := range hs {
				if _, ok := s.Live[h]; ok {
					nl++
				}
			}
			if nl == 0 {
				where = "stored"
			} else if nl < len(hs) {
				where = "live+stored"
			}
			w.violate("C03", "trx-twice", "transaction-in-two-vertices:"+where, n, "trx %s in %d vertices", hx(t), len(hs))
			continue
		}
		got, ok := s.Index[t]
		if !ok {
			w.violate("C03", "index", "held-transaction-without-index-entry", n, "trx %s vertex %s", hx(t), hx(hs[0]))
		} else if !bytes.Equal(got, hs[0][:]) {
			w.violate("C03", "index", "index-points-at-other-vertex", n, "trx %s -> %x, holder %s", hx(t), got, hx(hs[0]))
		}
	}
	for t := range s.Index {
		if _, ok := holders[t]; !ok {
			w.violate("C03", "index", "dangling-index-entry", n, "trx %s -> %x", hx(t), s.Index[t])
		}
	}
}

// ---------- C10 ----------

func (w *World) oracleC10(s *Snap) {
	n := s.Node
	self := 0
	check := func(h Hash, v *accountant.Vertex, live bool) {
		t := &v.Transaction
		// the rules speak of wallets: two address strings that decode to the same key are the same wallet
		if sameWalletAddr(t.IssuerAddress, v.SignerPublicAddress) {
			self++
			if !isGenesisShape(v) {
				w.violate("C10", "self-sealed", "non-genesis-vertex-issued-by-its-sealer", n, "vertex %s", hx(h))
			}
		} else if s.Genesis != "" && sameWalletAddr(t.IssuerAddress, s.Genesis) {
			w.violate("C10", "genesis-spends", "genesis-wallet-is-issuer", n, "vertex %s", hx(h))
		}
		if !isTransfer(t) && len(t.Data) == 0 {
			w.violate("C10", "empty", "empty-transaction-sealed", n, "vertex %s", hx(h))
		}
		if isGenesisShape(v) && t.IssuerAddress == t.ReceiverAddress {
			w.violate("C10", "genesis-receiver", "genesis-receiver-is-issuer", n, "vertex %s", hx(h))
		}
	}
	for h, sv := range s.Live {
		check(h, &sv.V, true)
	}
	for h, sv := range s.Stored {
		check(h, &sv.V, false)
	}
	if self > 1 {
		w.violate("C10", "self-sealed", "more-than-one-self-sealed-vertex", n, "%d vertices", self)
	}
}

// ---------- C05 (history clause) ----------

func (w *World) oracleC05hist(s *Snap) {
	n := s.Node
	for h, sv := range s.Live {
		if !canonical(sv.V.Transaction.Spice) {
			w.violate("C05", "non-canonical", "non-canonical-amount-in-ledger", n, "vertex %s amount %v", hx(h), sv.V.Transaction.Spice)
		}
	}
	for h, sv := range s.Stored {
		if !canonical(sv.V.Transaction.Spice) {
			w.violate("C05", "non-canonical", "non-canonical-amount-in-ledger", n, "stored vertex %s amount %v", hx(h), sv.V.Transaction.Spice)
		}
	}
	for a, f := range s.Funds {
		if !canonical(f) {
			w.violate("C05", "non-canonical", "non-canonical-checkpoint-funds", n, "address %s funds %v", shortAddr(a), f)
		}
	}
}

// ---------- C01 ----------

func (w *World) oracleC01(cur, prev *Snap, st *nodeState) {
	n := cur.Node
	conf := cur.confirmed()
	for _, h := range sortedHashes(conf) {
		if st.confirmedSeen[h] {
			continue
		}
		st.confirmedSeen[h] = true
		if st.baseline[h] {
			continue
		}
		v := conf[h]
		if !isTransfer(&v.Transaction) || isGenesisShape(v) {
			continue
		}
		if cur.Trusted[v.SignerPublicAddress] || (prev != nil && prev.Trusted[v.SignerPublicAddress]) {
			w.probe("c01-trusted-bypass-seen")
			continue
		}
		w.probe("c01-confirmed-transfer-checked")
		ok1, in1, out1, missing := w.refFunds(cur, cur, v)
		ok2 := ok1
		if prev != nil && !ok1 {
			ok2, _, _, _ = w.refFunds(cur, prev, v)
		}
		if len(missing) > 0 {
			w.probe("c01-ancestry-incomplete")
			continue
		}
		if !ok1 && !ok2 {
			cause := "confirmed-transfer-exceeds-issuer-funds-in-own-history"
			if _, stored := cur.Stored[h]; stored {
				cause = "checkpointed-transfer-exceeds-issuer-funds-in-own-history"
			}
			if w.wasRootTip(prev, h) {
				cause = "tip-was-graph-root-after-truncation"
			}
			if st.gross[v.Transaction.IssuerAddress] {
				cause = "checkpoint-gross-flow-not-representable"
			}
			if st.tainted[v.Transaction.IssuerAddress] {
				cause = "checkpoint-cannot-represent-overdrawn-history"
			}
			w.violate("C01", "overdraw", cause, n, "vertex %s issuer %s in=%s out=%s", hx(h), v.Transaction.IssuerAddress[:8], in1, out1)
		}
	}
}

func (w *World) wasRootTip(prev *Snap, h Hash) bool {
	if prev == nil {
		return false
	}
	sv := prev.Live[h]
	if sv == nil {
		return false
	}
	return len(sv.GParents) == 0 && !isGenesisShape(&sv.V)
}

// checkTipsDropped: after a successful local proposal that found at most two tips, every
// tip the reference judges overdrawn must be gone together with its index entry.
func (w *World) checkTipsDropped(before, after *Snap) {
	if before == nil || after == nil || len(before.Leaves) == 0 || len(before.Leaves) > 2 {
		return
	}
	n := before.Node
	w.noteTainted(before, w.nstate(n)) // the truncation loop may have run since the last observation
	for _, l := range before.Leaves {
		h, ok := idHash(l)
		if !ok {
			continue
		}
		sv := before.Live[h]
		if sv == nil || !isTransfer(&sv.V.Transaction) || isGenesisShape(&sv.V) || before.Trusted[sv.V.SignerPublicAddress] {
			continue
		}
		okf, in, out, missing := w.refFunds(before, before, &sv.V)
		if okf || len(missing) > 0 {
			continue
		}
		w.probe("c01-overdrawn-tip-examined")
		if w.nstate(n).tainted[sv.V.Transaction.IssuerAddress] {
			if _, still := after.Live[h]; still {
				w.violate("C01", "not-dropped", "checkpoint-cannot-represent-overdrawn-history", n, "tip %s in=%s out=%s", hx(h), in, out)
			}
			continue
		}
		if w.nstate(n).gross[sv.V.Transaction.IssuerAddress] {
			if _, still := after.Live[h]; still {
				w.violate("C01", "not-dropped", "checkpoint-gross-flow-not-representable", n, "tip %s in=%s out=%s", hx(h), in, out)
			}
			continue
		}
		if _, still := after.Live[h]; still {
			st := map[Hash]*accountant.Vertex{}
			for sh, ssv := range before.Stored {
				st[sh] = &ssv.V
			}
			si, so := flows(sv.V.Transaction.IssuerAddress, st)
			w.violate("C01", "not-dropped", "overdrawn-tip-kept-after-proposal", n, "tip %s in=%s out=%s; issuer stored in/out %s/%s funds record %v; tip graph parents %d declared %s %s; leaves before %d after %d", hx(h), in, out, si, so, before.Funds[sv.V.Transaction.IssuerAddress], len(sv.GParents), hx(sv.V.LeftParentHash), hx(sv.V.RightParentHash), len(before.Leaves), len(after.Leaves))
		}
		if _, idx := after.Index[sv.V.Transaction.Hash]; idx {
			if _, still := after.Live[h]; !still {
				w.violate("C01", "not-dropped", "index-entry-of-dropped-tip-kept", n, "tip %s trx %s", hx(h), hx(sv.V.Transaction.Hash))
			}
		}
	}
}

// ---------- C02 ----------

// oracleC02 checks ledger-wide conservation over the confirmed set of a quiescent snapshot.
func (w *World) oracleC02(s *Snap) {
	if len(s.Trusted) > 0 || !s.Loaded {
		return
	}
	n := s.Node
	conf := s.confirmed()
	addrs := map[string]bool{}
	var genesisIssuer string
	supply := new(big.Int)
	for _, v := range conf {
		t := &v.Transaction
		if !isTransfer(t) {
			continue
		}
		addrs[t.IssuerAddress] = true
		addrs[t.ReceiverAddress] = true
	}
	// the genesis vertex may itself be unconfirmed (a tip) in a ledger of one vertex
	for _, sv := range s.Live {
		if isGenesisShape(&sv.V) {
			genesisIssuer = sv.V.Transaction.IssuerAddress
			if _, ok := conf[sv.V.Hash]; ok {
				supply = melVal(sv.V.Transaction.Spice)
			}
		}
	}
	for _, sv := range s.Stored {
		if isGenesisShape(&sv.V) {
			genesisIssuer = sv.V.Transaction.IssuerAddress
			supply = melVal(sv.V.Transaction.Spice)
		}
	}
	if genesisIssuer == "" {
		return
	}
	total := new(big.Int)
	var over []string
	for _, a := range sortedStrings(addrs) {
		if a == genesisIssuer {
			continue
		}
		in, out := flows(a, conf)
		bal := new(big.Int).Sub(in, out)
		total.Add(total, bal)
		if bal.Sign() < 0 {
			over = append(over, fmt.Sprintf("%s:%s", shortAddr(a), bal))
		}
	}
	w.probe("c02-evaluated")
	if len(over) > 0 {
		// classify: is every confirmed vertex individually fine on its own history?
		allOK := true
		invalidTaintedOnly := true
		stn := w.nstate(n)
		for _, h := range sortedHashes(conf) {
			v := conf[h]
			if !isTransfer(&v.Transaction) || isGenesisShape(v) {
				continue
			}
			ok, _, _, missing := w.refFunds(s, s, v)
			if len(missing) == 0 && !ok {
				// re-evaluate without "everything stored": own ancestry only
				ok2, _, _, _ := w.refFunds(s, nil, v)
				if !ok2 {
					allOK = false
					if !stn.tainted[v.Transaction.IssuerAddress] {
						invalidTaintedOnly = false
					}
				}
			}
		}
		cause := "some-branch-individually-invalid"
		if allOK {
			cause = "all-branches-individually-valid"
		} else if invalidTaintedOnly {
			cause = "individually-invalid-only-after-clamped-checkpoint"
		}
		w.violate("C02", "union-overdraw", cause, n, "overdrawn: %v", over)
		return
	}
	if total.Cmp(supply) != 0 {
		w.violate("C02", "supply", "balances-do-not-sum-to-genesis-supply", n, "sum=%s supply=%s", total, supply)
	}
}

func checksum4(body []byte) []byte {
	h1 := sha256.Sum256(body)
	h2 := sha256.Sum256(h1[:])
	return h2[:4]
}

// sameWalletAddr: equal address strings, or two valid addresses of the same public key.
func sameWalletAddr(a, b string) bool {
	if a == b {
		return true
	}
	ka, oka := addrKey(a)
	kb, okb := addrKey(b)
	return oka && okb && bytes.Equal(ka, kb)
}
