package harness

import (
	"context"
	"crypto/sha256"
	"errors"
	"fmt"
	"io"
	"time"

	"google.golang.org/grpc"
	"google.golang.org/grpc/metadata"
	"google.golang.org/protobuf/proto"
	"google.golang.org/protobuf/types/known/emptypb"

	pb "github.com/bartossh/Computantis/src/protobufcompiled"
	"verif.local/simrt"
)

var (
	errUnavailable = errors.New("simnet: unavailable")
	errLost        = errors.New("simnet: deadline exceeded (message lost)")
	errCancelled   = errors.New("simnet: context canceled")
	errPanic       = errors.New("simnet: handler panicked (connection reset)")
)

// NetMsg is one entry of the network log.
type NetMsg struct {
	At        int64    `json:"at"`
	From      int      `json:"from"`
	To        int      `json:"to"`
	Kind      string   `json:"kind"`
	Item      Hash     `json:"-"`
	ItemHex   string   `json:"item"`
	Gossipers []string `json:"-"`
	Fate      string   `json:"fate"` // delivered, dropped, cut, down, cancelled, dup
	Err       string   `json:"err,omitempty"`
	Delivered int64    `json:"delivered_at"`
	Dup       bool     `json:"dup,omitempty"` // a duplicate made by the network, not a second send
}

// Mutator may replace a message in flight; it returns nil to leave it alone.
type Mutator func(from, to int, kind string, msg proto.Message) proto.Message

// SimNet is the only transport the nodes see.
type SimNet struct {
	w        *World
	Log      []*NetMsg
	cut      map[[2]int]bool
	Mutate   Mutator
	inflight int
	streams  int
	// StreamFault describes what to do with the next LoadDag stream served (consumed once).
	StreamFault *StreamFault
	Panics      []string
	open        []*dagStream
}

// StreamFault is a fault on a LoadDag stream.
type StreamFault struct {
	Kind  string `json:"kind"` // dup-vertex, dup-trx, unknown-parent, unknown-right-parent, unknown-left-parent, second-self-sealed, empty-trx, cut, tampered-*, none
	Index int    `json:"index"`
	fired bool
	// closedPrefix: for "cut": what was delivered before the stream broke off is itself a well-formed
	// smaller DAG (every declared parent delivered too, or the vertex is a root)
	closedPrefix bool
	tampered     *pb.Vertex // for "tampered-*": the altered vertex as it was sent
}

func newSimNet(w *World) *SimNet { return &SimNet{w: w, cut: map[[2]int]bool{}} }

func linkKey(a, b int) [2]int {
	if a > b {
		a, b = b, a
	}
	return [2]int{a, b}
}

func (n *SimNet) isCut(a, b int) bool { return n.cut[linkKey(a, b)] }

func (n *SimNet) quiet() bool { return n.inflight == 0 && n.streams == 0 }

type stub struct {
	net *SimNet
	to  *Node
}

func (w *World) dialHook(url string) (pb.GossipAPIClient, error) {
	n := w.nodeByURL(url)
	if n == nil {
		// dialling never fails up front (gRPC connects lazily): calls to nowhere fail later
		return &stub{net: w.Net, to: w.nowhere()}, nil
	}
	return &stub{net: w.Net, to: n}, nil
}

func callerNode(w *World) int {
	if t := simrt.Me(); t != nil {
		if n := w.nodeByURL(t.Label); n != nil {
			return n.Idx
		}
	}
	return -1
}

func roundTrip[T proto.Message](in T, out T) error {
	b, err := proto.Marshal(in)
	if err != nil {
		return err
	}
	return proto.Unmarshal(b, out)
}

func (n *SimNet) latency(t *simrt.Task) time.Duration {
	c := &n.w.Cfg
	ms := c.LatMinMS
	if c.LatJitMS > 0 {
		ms += t.Intn(c.LatJitMS + 1)
	}
	if c.SpikeP > 0 && float64(t.Rand()>>11)/float64(1<<53) < c.SpikeP {
		ms *= 5 + t.Intn(36)
		n.w.fault("delay-spike")
	}
	if ms < 1 {
		ms = 1
	}
	return time.Duration(ms) * time.Millisecond
}

func chance(t *simrt.Task, p float64) bool {
	if p <= 0 {
		return false
	}
	return float64(t.Rand()>>11)/float64(1<<53) < p
}

// deliver runs handler on the target node as the network would: latency, faults, request
// context, panic containment. req has already been copied through the wire encoding.
func (n *SimNet) deliver(ctx context.Context, from int, to *Node, kind string, item Hash, gossipers []string, faultable bool,
	handler func(ctx context.Context) error) error {
	return n.deliverX(ctx, from, to, kind, item, gossipers, faultable, false, handler)
}

func (n *SimNet) deliverX(ctx context.Context, from int, to *Node, kind string, item Hash, gossipers []string, faultable, isDup bool,
	handler func(ctx context.Context) error) error {
	w := n.w
	t := simrt.Me()
	m := &NetMsg{At: simrt.Now(), From: from, To: to.Idx, Kind: kind, Item: item, ItemHex: hx(item), Gossipers: gossipers, Dup: isDup}
	n.Log = append(n.Log, m)
	if ctx != nil && ctx.Err() != nil {
		m.Fate = "cancelled"
		w.fault("ctx-cancel")
		return errCancelled
	}
	n.inflight++
	defer func() { n.inflight-- }()
	lat := n.latency(t)
	if from >= 0 && n.isCut(from, to.Idx) {
		m.Fate = "cut"
		w.fault("partition-blocked")
		simrt.SleepFor(lat)
		return errUnavailable
	}
	if faultable && chance(t, w.Cfg.DropP) {
		m.Fate = "dropped"
		w.fault("drop")
		simrt.SleepFor(lat)
		return errLost
	}
	simrt.SleepFor(lat)
	gen := to.Gen
	if !to.Alive {
		m.Fate = "down"
		w.fault("peer-down")
		return errUnavailable
	}
	if from >= 0 && n.isCut(from, to.Idx) {
		m.Fate = "cut"
		w.fault("partition-blocked")
		return errUnavailable
	}
	m.Fate = "delivered"
	m.Delivered = simrt.Now()
	err := n.runHandler(to, kind, handler)
	m.Err = errStr(err)
	if to.Gen != gen || !to.Alive {
		return errUnavailable
	}
	simrt.SleepFor(n.latency(t))
	return err
}

// runHandler executes a service handler of node `to` in the calling task, labelled as that node.
func (n *SimNet) runHandler(to *Node, kind string, handler func(ctx context.Context) error) (err error) {
	w := n.w
	t := simrt.Me()
	old, oldName := "", ""
	if t != nil {
		old, oldName = t.Label, t.Name
		t.Label = to.URL
		t.Name = fmt.Sprintf("n%d:%s", to.Idx, kind)
	}
	hctx, cancel := context.WithCancel(to.ctx)
	defer func() {
		if t != nil {
			t.Label, t.Name = old, oldName
		}
		if w.Cfg.CtxCancelOnReturn {
			cancel()
		}
		if r := recover(); r != nil {
			msg := fmt.Sprintf("%s on n%d: %v", kind, to.Idx, r)
			n.Panics = append(n.Panics, msg)
			w.onPanic(to, kind, r)
			err = errPanic
		}
	}()
	return handler(hctx)
}

// gossiperAddrs returns the addresses of the entries whose signature is valid for (address, item):
// recomputed independently of the code under test.
func gossiperAddrsFor(item Hash, gs []*pb.Gossiper) []string {
	out := make([]string, 0, len(gs))
	for _, g := range gs {
		if g == nil {
			continue
		}
		d := sha256.Sum256(append([]byte(g.Address), item[:]...))
		if len(g.Digest) == 32 && toHash(g.Digest) == d && sigOK(g.Address, d, g.Signature) {
			out = append(out, g.Address)
		}
	}
	return out
}

func gossiperAddrs(gs []*pb.Gossiper) []string {
	out := make([]string, 0, len(gs))
	for _, g := range gs {
		if g != nil {
			out = append(out, g.Address)
		}
	}
	return out
}

func toHash(b []byte) Hash {
	var h Hash
	copy(h[:], b)
	return h
}

func (s *stub) Alive(ctx context.Context, in *emptypb.Empty, _ ...grpc.CallOption) (*pb.AliveData, error) {
	var out *pb.AliveData
	err := s.net.deliver(ctx, callerNode(s.net.w), s.to, "Alive", Hash{}, nil, false, func(c context.Context) error {
		r, e := s.to.Goss.Server().Alive(c, &emptypb.Empty{})
		out = r
		return e
	})
	return out, err
}

func (s *stub) Announce(ctx context.Context, in *pb.ConnectionData, _ ...grpc.CallOption) (*emptypb.Empty, error) {
	req := &pb.ConnectionData{}
	if err := roundTrip(in, req); err != nil {
		return nil, err
	}
	var out *emptypb.Empty
	err := s.net.deliver(ctx, callerNode(s.net.w), s.to, "Announce", Hash{}, nil, false, func(c context.Context) error {
		r, e := s.to.Goss.Server().Announce(c, req)
		out = r
		return e
	})
	if err != nil {
		return nil, err
	}
	return out, nil
}

func (s *stub) Discover(ctx context.Context, in *pb.ConnectionData, _ ...grpc.CallOption) (*pb.ConnectedNodes, error) {
	req := &pb.ConnectionData{}
	if err := roundTrip(in, req); err != nil {
		return nil, err
	}
	var out *pb.ConnectedNodes
	err := s.net.deliver(ctx, callerNode(s.net.w), s.to, "Discover", Hash{}, nil, false, func(c context.Context) error {
		r, e := s.to.Goss.Server().Discover(c, req)
		if e == nil && r != nil {
			out = &pb.ConnectedNodes{}
			e = roundTrip(r, out)
		}
		return e
	})
	if err != nil {
		return nil, err
	}
	if m := s.net.Mutate; m != nil && out != nil {
		if alt := m(s.to.Idx, callerNode(s.net.w), "DiscoverReply", out); alt != nil {
			if cn, ok := alt.(*pb.ConnectedNodes); ok {
				out = cn
			}
		}
	}
	return out, nil
}

func (s *stub) GossipVrx(ctx context.Context, in *pb.VrxMsgGossip, _ ...grpc.CallOption) (*emptypb.Empty, error) {
	w := s.net.w
	from := callerNode(w)
	req := &pb.VrxMsgGossip{}
	if err := roundTrip(in, req); err != nil {
		return nil, err
	}
	if s.net.Mutate != nil {
		if m := s.net.Mutate(from, s.to.Idx, "GossipVrx", req); m != nil {
			req = m.(*pb.VrxMsgGossip)
		}
	}
	var item Hash
	if req.Vertex != nil {
		item = toHash(req.Vertex.Hash)
	}
	h := func(c context.Context) error {
		_, e := s.to.Goss.Server().GossipVrx(c, req)
		return e
	}
	if t := simrt.Me(); chance(t, w.Cfg.DupP) {
		w.fault("dup")
		dup := &pb.VrxMsgGossip{}
		roundTrip(req, dup)
		simrt.GoNamed("net-dup", func() {
			if !chance(simrt.Me(), 0.4) { // otherwise the copy travels beside the original and arrives at about the same time
				simrt.SleepFor(s.net.latency(simrt.Me()))
			}
			s.net.deliverX(context.Background(), from, s.to, "GossipVrx", item, gossiperAddrsFor(item, dup.Gossipers), false, true, func(c context.Context) error {
				_, e := s.to.Goss.Server().GossipVrx(c, dup)
				return e
			})
		})
	}
	err := s.net.deliver(ctx, from, s.to, "GossipVrx", item, gossiperAddrsFor(item, req.Gossipers), true, h)
	if err != nil {
		return nil, err
	}
	return &emptypb.Empty{}, nil
}

func (s *stub) GossipTrx(ctx context.Context, in *pb.TrxMsgGossip, _ ...grpc.CallOption) (*emptypb.Empty, error) {
	w := s.net.w
	from := callerNode(w)
	req := &pb.TrxMsgGossip{}
	if err := roundTrip(in, req); err != nil {
		return nil, err
	}
	if s.net.Mutate != nil {
		if m := s.net.Mutate(from, s.to.Idx, "GossipTrx", req); m != nil {
			req = m.(*pb.TrxMsgGossip)
		}
	}
	var item Hash
	if req.Trx != nil {
		item = toHash(req.Trx.Hash)
	}
	if t := simrt.Me(); chance(t, w.Cfg.DupP) {
		w.fault("dup")
		dup := &pb.TrxMsgGossip{}
		roundTrip(req, dup)
		simrt.GoNamed("net-dup", func() {
			if !chance(simrt.Me(), 0.4) { // otherwise the copy travels beside the original and arrives at about the same time
				simrt.SleepFor(s.net.latency(simrt.Me()))
			}
			s.net.deliverX(context.Background(), from, s.to, "GossipTrx", item, gossiperAddrsFor(item, dup.Gossipers), false, true, func(c context.Context) error {
				_, e := s.to.Goss.Server().GossipTrx(c, dup)
				return e
			})
		})
	}
	err := s.net.deliver(ctx, from, s.to, "GossipTrx", item, gossiperAddrsFor(item, req.Gossipers), true, func(c context.Context) error {
		_, e := s.to.Goss.Server().GossipTrx(c, req)
		return e
	})
	if err != nil {
		return nil, err
	}
	return &emptypb.Empty{}, nil
}

func (s *stub) GetVertex(ctx context.Context, in *pb.SignedHash, _ ...grpc.CallOption) (*pb.Vertex, error) {
	req := &pb.SignedHash{}
	if err := roundTrip(in, req); err != nil {
		return nil, err
	}
	var out *pb.Vertex
	err := s.net.deliver(ctx, callerNode(s.net.w), s.to, "GetVertex", toHash(req.Data), nil, false, func(c context.Context) error {
		r, e := s.to.Goss.Server().GetVertex(c, req)
		if e == nil && r != nil {
			out = &pb.Vertex{}
			e = roundTrip(r, out)
		}
		return e
	})
	if err != nil {
		return nil, err
	}
	if s.net.Mutate != nil && out != nil {
		if m := s.net.Mutate(s.to.Idx, callerNode(s.net.w), "GetVertexReply", out); m != nil {
			out = m.(*pb.Vertex)
		}
	}
	return out, nil
}

// --- LoadDag stream ---

type streamItem struct {
	v   *pb.Vertex
	err error
}

type dagStream struct {
	net    *SimNet
	ctx    context.Context
	q      chan streamItem
	done   chan struct{}
	sent   int
	f      *StreamFault
	seen   []*pb.Vertex
	from   int
	toURL  string
	closed bool
}

func (s *stub) LoadDag(ctx context.Context, in *emptypb.Empty, _ ...grpc.CallOption) (pb.GossipAPI_LoadDagClient, error) {
	w := s.net.w
	if !s.to.Alive {
		return nil, errUnavailable
	}
	buf := w.Cfg.StreamBuf
	if buf < 1 {
		buf = 1
	}
	st := &dagStream{net: s.net, ctx: ctx, q: make(chan streamItem, buf), done: make(chan struct{}), f: s.net.StreamFault,
		from: callerNode(w), toURL: s.to.URL}
	s.net.open = append(s.net.open, st)
	s.net.StreamFault = nil
	s.net.streams++
	to := s.to
	simrt.GoNamed(fmt.Sprintf("n%d:LoadDag-serve", to.Idx), func() {
		defer func() { s.net.streams-- }()
		err := s.net.runHandler(to, "LoadDag", func(c context.Context) error {
			return to.Goss.Server().LoadDag(&emptypb.Empty{}, &dagServerStream{st: st, ctx: c})
		})
		if err == nil {
			err = io.EOF
		}
		st.push(streamItem{err: err})
	})
	return &dagClientStream{st: st}, nil
}

type dagServerStream struct {
	st  *dagStream
	ctx context.Context
}

func (d *dagServerStream) Send(v *pb.Vertex) error {
	st := d.st
	cp := &pb.Vertex{}
	if err := roundTrip(v, cp); err != nil {
		return err
	}
	idx := st.sent
	st.sent++
	st.seen = append(st.seen, cp)
	if f := st.f; f != nil && !f.fired && idx == f.Index {
		f.fired = true
		st.net.w.fault("stream:" + f.Kind)
		switch f.Kind {
		case "tampered-amount", "tampered-data", "tampered-signature":
			// the vertex itself is altered in transit; hashes and the other signatures stay as sealed
			switch {
			case f.Kind == "tampered-amount" && cp.Transaction != nil && cp.Transaction.Spice != nil:
				cp.Transaction.Spice.Currency += 7
			case f.Kind == "tampered-data" && cp.Transaction != nil:
				cp.Transaction.Data = append(append([]byte{}, cp.Transaction.Data...), 'x')
			default:
				if len(cp.Signature) > 0 {
					cp.Signature = append([]byte{}, cp.Signature...)
					cp.Signature[0] ^= 1
				}
			}
			f.tampered = cp
		case "cut":
			have := map[string]bool{}
			for _, pv := range st.seen[:len(st.seen)-1] {
				have[string(pv.Hash)] = true
			}
			zero := string(make([]byte, 32))
			f.closedPrefix = len(have) > 0
			for _, pv := range st.seen[:len(st.seen)-1] {
				for _, ph := range [][]byte{pv.LeftParentHash, pv.RightParentHash} {
					if string(ph) != zero && !have[string(ph)] {
						f.closedPrefix = false
					}
				}
			}
			st.push(streamItem{err: errUnavailable})
			return errUnavailable
		default:
			for _, extra := range st.net.w.streamCorruption(f.Kind, cp, st.seen) {
				if !st.push(streamItem{v: extra}) {
					return errUnavailable
				}
			}
		}
	}
	if !st.push(streamItem{v: cp}) {
		return errUnavailable
	}
	return nil
}

// push blocks like a flow-controlled stream send; it fails once the client is gone.
func (st *dagStream) push(it streamItem) bool {
	simrt.Yield("stream-send")
	select {
	case st.q <- it:
		simrt.AfterWake()
		return true
	case <-st.done:
		simrt.AfterWake()
		return false
	}
}
func (d *dagServerStream) SetHeader(metadata.MD) error  { return nil }
func (d *dagServerStream) SendHeader(metadata.MD) error { return nil }
func (d *dagServerStream) SetTrailer(metadata.MD)       {}
func (d *dagServerStream) Context() context.Context     { return d.ctx }
func (d *dagServerStream) SendMsg(m any) error          { return nil }
func (d *dagServerStream) RecvMsg(m any) error          { return io.EOF }

type dagClientStream struct {
	st  *dagStream
	end error
}

func (c *dagClientStream) Recv() (*pb.Vertex, error) {
	if c.end != nil {
		return nil, c.end
	}
	it := simrt.Recv(c.st.q)
	if it.err != nil {
		c.end = it.err
		return nil, it.err
	}
	return it.v, nil
}
func (c *dagClientStream) Header() (metadata.MD, error) { return nil, nil }
func (c *dagClientStream) Trailer() metadata.MD         { return nil }
func (c *dagClientStream) CloseSend() error             { return nil }
func (c *dagClientStream) Context() context.Context     { return c.st.ctx }
func (c *dagClientStream) SendMsg(m any) error          { return nil }
func (c *dagClientStream) RecvMsg(m any) error          { return io.EOF }
