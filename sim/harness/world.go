package harness

import (
	"context"
	"crypto/ed25519"
	"errors"
	"fmt"
	"math/big"
	"sort"
	"strings"
	"time"

	"github.com/bartossh/Computantis/src/accountant"
	"github.com/bartossh/Computantis/src/cache"
	"github.com/bartossh/Computantis/src/dataprovider"
	"github.com/bartossh/Computantis/src/gossip"
	"github.com/bartossh/Computantis/src/notaryserver"
	"github.com/bartossh/Computantis/src/pipe"
	"github.com/bartossh/Computantis/src/protobufcompiled"
	pb "github.com/bartossh/Computantis/src/protobufcompiled"
	"github.com/bartossh/Computantis/src/spice"
	"github.com/bartossh/Computantis/src/transaction"
	"github.com/bartossh/Computantis/src/wallet"
	"verif.local/simrt"
)

// Hash is a 32-byte digest.
type Hash = [32]byte

func hx(h Hash) string { return fmt.Sprintf("%x", h[:6]) }

// recLogger is the logger stub: it records, never prints.
type recLogger struct {
	node        string
	Fatals      []string
	Errors      int
	Infos       int
	Truncs      int // "Finished truncate" lines of the weight-triggered truncation loop
	TruncStarts int
	stopping    bool   // the node's context has been cancelled: whatever its loops log now is shutdown noise
	onTruncated func() // called when the truncation loop reports a finished truncation (its lock is released by then)
	keep        bool
	Lines       []string
}

func (l *recLogger) add(level, msg string) {
	if l.keep && len(l.Lines) < 400 {
		l.Lines = append(l.Lines, level+": "+msg)
	}
}
func (l *recLogger) Debug(msg string) { l.add("debug", msg) }
func (l *recLogger) Info(msg string) {
	l.Infos++
	if strings.HasPrefix(msg, "Finished truncate") {
		l.Truncs++
		if l.onTruncated != nil && !l.stopping {
			l.onTruncated()
		}
	}
	if strings.HasPrefix(msg, "Starting truncate") {
		l.TruncStarts++
	}
	l.add("info", msg)
}
func (l *recLogger) Warn(msg string)  { l.add("warn", msg) }
func (l *recLogger) Error(msg string) { l.Errors++; l.add("error", msg) }
func (l *recLogger) Fatal(msg string) {
	if !l.stopping {
		l.Fatals = append(l.Fatals, msg)
	}
	l.add("fatal", msg)
}

// noTele is the telemetry stub.
type noTele struct{}

func (noTele) CreateUpdateObservableHistogram(name, description string) {}
func (noTele) RecordHistogramTime(name string, t time.Duration) bool    { return true }
func (noTele) RecordHistogramValue(name string, f float64) bool         { return true }

// AccCall is one recorded call of a service into its ledger.
type AccCall struct {
	At   int64
	Node int
	Op   string
	Hash Hash // vertex hash (AddLeaf) or trx hash (CreateLeaf)
	Err  string
	Via  string // task name
}

// accRec wraps the real ledger for the services and records their calls.
type accRec struct {
	w    *World
	n    *Node
	book *accountant.AccountingBook
}

func errStr(err error) string {
	if err == nil {
		return ""
	}
	return err.Error()
}

func (a *accRec) rec(op string, h Hash, err error) {
	via := ""
	if t := simrt.Me(); t != nil {
		via = t.Name
	}
	a.w.AccCalls = append(a.w.AccCalls, AccCall{At: simrt.Now(), Node: a.n.Idx, Op: op, Hash: h, Err: errStr(err), Via: via})
}

func (a *accRec) CreateGenesis(subject string, spc spice.Melange, data []byte, publicAddress string) (accountant.Vertex, error) {
	return a.book.CreateGenesis(subject, spc, data, publicAddress)
}
func (a *accRec) AddLeaf(ctx context.Context, leaf *accountant.Vertex) error {
	var h Hash
	if leaf != nil {
		h = leaf.Hash
		a.w.Archive.addVertex(leaf, "wire")
	}
	err := a.book.AddLeaf(ctx, leaf)
	a.rec("AddLeaf", h, err)
	return err
}
func (a *accRec) StreamDAG(ctx context.Context) <-chan *accountant.Vertex {
	return a.book.StreamDAG(ctx)
}
func (a *accRec) LoadDag(cancelF context.CancelCauseFunc, cVrx <-chan *accountant.Vertex) {
	a.book.LoadDag(cancelF, cVrx)
}
func (a *accRec) DagLoaded() bool { return a.book.DagLoaded() }
func (a *accRec) ReadVertex(ctx context.Context, h [32]byte) (accountant.Vertex, error) {
	return a.book.ReadVertex(ctx, h)
}
func (a *accRec) Address() string { return a.book.Address() }
func (a *accRec) CreateLeaf(ctx context.Context, trx *transaction.Transaction) (accountant.Vertex, error) {
	v, err := a.book.CreateLeaf(ctx, trx)
	var h Hash
	if trx != nil {
		h = trx.Hash
	}
	if err == nil {
		a.w.Archive.addVertex(&v, "created")
		a.w.noteCreated(a.n, &v)
	}
	a.rec("CreateLeaf", h, err)
	return v, err
}
func (a *accRec) ReadTransactionByHash(ctx context.Context, h [32]byte) (transaction.Transaction, error) {
	return a.book.ReadTransactionByHash(ctx, h)
}
func (a *accRec) ReadDAGTransactionsByAddress(ctx context.Context, address string) ([]transaction.Transaction, error) {
	return a.book.ReadDAGTransactionsByAddress(ctx, address)
}
func (a *accRec) CalculateBalance(ctx context.Context, walletPubAddr string) (accountant.Balance, error) {
	return a.book.CalculateBalance(ctx, walletPubAddr)
}

// cacheRec wraps the awaiting cache for the services and records saves.
type cacheRec struct {
	*cache.Hippocampus
	w *World
	n *Node
}

func (c *cacheRec) SaveAwaitedTransaction(trx *transaction.Transaction) error {
	err := c.Hippocampus.SaveAwaitedTransaction(trx)
	var h Hash
	if trx != nil {
		h = trx.Hash
	}
	via := ""
	if t := simrt.Me(); t != nil {
		via = t.Name
	}
	c.w.AccCalls = append(c.w.AccCalls, AccCall{At: simrt.Now(), Node: c.n.Idx, Op: "SaveAwaited", Hash: h, Err: errStr(err), Via: via})
	return err
}

// Node is one simulated notary node: real ledger, caches, gossip and notary services.
type Node struct {
	Idx    int
	URL    string
	W      *wallet.Wallet
	Addr   string
	Book   *accountant.AccountingBook
	Acc    *accRec
	Hippo  *cache.Hippocampus
	HippoR *cacheRec
	Flash  *cache.Flashback
	Pipe   *pipe.Juggler
	Goss   *gossip.VerifGossiper
	Notary protobufcompiled.NotaryAPIServer
	Data   *dataprovider.Cache
	Log    *recLogger
	ctx    context.Context
	cancel context.CancelFunc
	Alive  bool
	Gen    int // incarnation
	Loaded bool
}

// World is the state of one simulated run.
type World struct {
	Seed               uint64
	Cfg                Config
	Nodes              []*Node
	Wallets            []*wallet.Wallet // client wallets
	WAddr              []string
	TextAddrs          []string // free-text receiver addresses used so far
	GenesisReceiver    int      // index into Wallets
	Supply             spice.Melange
	Net                *SimNet
	Archive            *Archive
	AccCalls           []AccCall
	Created            []CreatedRec
	Verifier           wallet.Helper
	ctx                context.Context
	cancel             context.CancelFunc
	rng                *prng
	Probes             map[string]int64
	Faults             map[string]int64
	Viol               []Violation
	stepIdx            int
	Notes              []string
	dataLongevity      uint64
	nstates            map[int]*nodeState
	shapes             map[string]bool
	pending            []*opHandle
	Results            []StepResult
	Trxs               []*transaction.Transaction
	Panics             []PanicRec
	curTag             string
	KnobMissing        []string
	GenesisVertex      accountant.Vertex
	strangerAddr       string
	concurrentActivity bool
	adv                *wallet.Wallet
	Crafted            []accountant.Vertex
	syncStuck          [][2]int
	Mutants            []mutantRec
	streamBad          *pb.Vertex
	panicSeen          map[string]bool
	nowhereNode        *Node
	parkedSeen         map[int]int
	Byz                map[int]bool
	seenDelivery       map[Hash]bool
	Ops                int
	taskPanicReported  map[int]bool
	stuck              []*opHandle
	noTruncObserve     bool
	cacheKeys          map[int][2][]string
	truncFailed        map[int]bool // nodes on which a synchronous truncation returned a real error (production exits there)
}

// CreatedRec remembers a vertex created by a node (CreateLeaf success).
type CreatedRec struct {
	Node int
	V    accountant.Vertex
	At   int64
}

func (w *World) noteCreated(n *Node, v *accountant.Vertex) {
	w.Created = append(w.Created, CreatedRec{Node: n.Idx, V: *v, At: simrt.Now()})
}

func (w *World) probe(name string) { w.Probes[name]++ }
func (w *World) fault(name string) { w.Faults[name]++ }
func (w *World) note(f string, a ...any) {
	if len(w.Notes) < 200 {
		w.Notes = append(w.Notes, fmt.Sprintf(f, a...))
	}
}

// Violation is one oracle failure.
type Violation struct {
	Property string `json:"property"`
	Oracle   string `json:"oracle"`
	Cause    string `json:"cause"`
	Detail   string `json:"detail"`
	Step     int    `json:"step"`
	Node     int    `json:"node"`
	At       int64  `json:"at_ns"`
}

func (v Violation) Signature() string { return v.Property + "|" + v.Oracle + "|" + v.Cause }

func (w *World) violate(prop, oracle, cause string, node int, detail string, a ...any) {
	v := Violation{Property: prop, Oracle: oracle, Cause: cause, Detail: fmt.Sprintf(detail, a...), Step: w.stepIdx, Node: node, At: simrt.Now()}
	for _, o := range w.Viol {
		if o.Signature() == v.Signature() {
			return
		}
	}
	if len(w.Viol) < 50 {
		w.Viol = append(w.Viol, v)
	}
	simrt.Logf("violation", "%s", v.Signature())
}

func newWalletFrom(r *prng) *wallet.Wallet {
	seed := make([]byte, ed25519.SeedSize)
	for i := range seed {
		seed[i] = byte(r.Uint64())
	}
	priv := ed25519.NewKeyFromSeed(seed)
	return &wallet.Wallet{Private: priv, Public: priv.Public().(ed25519.PublicKey)}
}

// NewWorld creates nodes (not yet started) and wallets from the seed.
func NewWorld(seed uint64, cfg Config) *World {
	w := &World{Seed: seed, Cfg: cfg, Archive: newArchive(), Probes: map[string]int64{}, Faults: map[string]int64{}, shapes: map[string]bool{}, rng: newPRNG(seed ^ 0xA5A5A5A5)}
	w.ctx, w.cancel = context.WithCancel(context.Background())
	w.Verifier = wallet.NewVerifier()
	w.Net = newSimNet(w)
	for i := 0; i < cfg.Wallets; i++ {
		wl := newWalletFrom(w.rng)
		w.Wallets = append(w.Wallets, wl)
		w.WAddr = append(w.WAddr, wl.Address())
	}
	for i := 0; i < cfg.Nodes; i++ {
		wl := newWalletFrom(w.rng)
		w.Nodes = append(w.Nodes, &Node{Idx: i, URL: fmt.Sprintf("sim://n%d", i), W: wl, Addr: wl.Address()})
	}
	w.Supply = spice.Melange{Currency: cfg.SupplyCur, SupplementaryCurrency: cfg.SupplySup}
	w.dataLongevity = 60
	return w
}

// startNode builds a fresh incarnation of node i (real components). It must run in a task.
func (w *World) startNode(i int) error {
	n := w.Nodes[i]
	n.Gen++
	delete(w.nstates, i) // a restarted node starts from nothing (all state is in memory): the oracles' memory of it too
	delete(w.truncFailed, i)
	n.ctx, n.cancel = context.WithCancel(w.ctx)
	n.Log = &recLogger{node: n.URL, keep: w.Cfg.KeepLogs}
	n.Log.onTruncated = func() {
		if w.noTruncObserve {
			return
		}
		// observe the ledger after EVERY weight-triggered truncation: what one truncation did to the checkpoint
		// (e.g. clamping an overdrawn wallet) cannot be reconstructed once the next one has run
		if s := w.snapshot(n); s != nil {
			w.checkSnap(s)
			w.probe("snapshot-after-weight-triggered-truncation")
		}
	}
	me := simrt.Me()
	old := ""
	if me != nil {
		old = me.Label
		me.Label = n.URL
	}
	defer func() {
		if me != nil {
			me.Label = old
		}
	}()
	book, err := accountant.NewAccountingBook(n.ctx, accountant.Config{Truncate: w.Cfg.TruncateAt}, w.Verifier, n.W, n.Log)
	if err != nil {
		return err
	}
	n.Book = book
	n.Acc = &accRec{w: w, n: n, book: book}
	n.Hippo, err = cache.New(256, 16)
	if err != nil {
		return err
	}
	n.HippoR = &cacheRec{Hippocampus: n.Hippo, w: w, n: n}
	n.Flash, err = cache.NewFlash()
	if err != nil {
		return err
	}
	n.Pipe = pipe.New(64, 64)
	n.Data = dataprovider.New(n.ctx, dataprovider.Config{Longevity: w.dataLongevity})
	n.Goss = gossip.VerifNew(n.URL, n.Log, 5*time.Second, n.W, w.Verifier, n.Acc, n.HippoR, n.Flash, n.Pipe)
	n.Notary = notaryserver.VerifNew(notaryserver.Config{NodePublicURL: n.URL, DataSizeBytes: w.Cfg.DataSize}, nil, n.Data, noTele{}, n.Log, w.Verifier, n.Acc, n.HippoR, n.Flash, n.Pipe)
	n.Goss.RunLoops(n.ctx)
	n.Alive = true
	n.Loaded = false
	return nil
}

// stopNode discards a node object (crash): only nothing survives, the DAG is memory-only.
func (w *World) stopNode(i int) {
	n := w.Nodes[i]
	if !n.Alive {
		return
	}
	n.Alive = false
	if n.Log != nil {
		n.Log.stopping = true
	}
	n.cancel()
	// A crash waits for nobody, but the stores are plain memory of this process: closing them under a
	// truncation that is still writing its backup makes badger walk freed memory and takes the whole worker
	// down. The node's tasks get a simulated minute to see their cancelled context, then the stores go.
	hippo, flash, book := n.Hippo, n.Flash, n.Book
	simrt.GoNamed(fmt.Sprintf("n%d:close-stores", i), func() {
		simrt.SleepFor(time.Minute)
		hippo.Close()
		flash.Close()
		book.VerifClose()
	})
}

// addNode appends one more node (a late joiner) to the world.
func (w *World) addNode() *Node {
	wl := newWalletFrom(w.rng)
	n := &Node{Idx: len(w.Nodes), URL: fmt.Sprintf("sim://n%d", len(w.Nodes)), W: wl, Addr: wl.Address()}
	w.Nodes = append(w.Nodes, n)
	return n
}

// opEnabled tells a scenario whether its k-th generated operation is to be executed. Scenarios
// draw each operation from its own PRNG (opRNG) so that leaving one out does not change the others.
func (w *World) opEnabled(k int) bool {
	if k+1 > w.Ops {
		w.Ops = k + 1
	}
	if w.Cfg.OpLimit > 0 && k >= w.Cfg.OpLimit {
		return false
	}
	for _, s := range w.Cfg.OpSkip {
		if s == k {
			return false
		}
	}
	return true
}

func (w *World) opRNG(k int) *prng { return newPRNG(w.Seed ^ 0x0F0F ^ uint64(k+1)*0x9E3779B97F4A7C15) }

// nowhere is the target of connections to URLs that no node listens on: never alive.
func (w *World) nowhere() *Node {
	if w.nowhereNode == nil {
		w.nowhereNode = &Node{Idx: -2, URL: "sim://nowhere", Alive: false}
	}
	return w.nowhereNode
}

func (w *World) nodeByURL(url string) *Node {
	for _, n := range w.Nodes {
		if n.URL == url {
			return n
		}
	}
	return nil
}

func (w *World) nodeByAddr(addr string) *Node {
	for _, n := range w.Nodes {
		if n.Addr == addr {
			return n
		}
	}
	return nil
}

func (w *World) walletByAddr(addr string) *wallet.Wallet {
	for i, a := range w.WAddr {
		if a == addr {
			return w.Wallets[i]
		}
	}
	for _, n := range w.Nodes {
		if n.Addr == addr {
			return n.W
		}
	}
	return nil
}

// melVal is the exact value of an amount: currency*10^18 + supplementary (non-canonical
// amounts keep their literal value).
var e18 = new(big.Int).Exp(big.NewInt(10), big.NewInt(18), nil)

func melVal(m spice.Melange) *big.Int {
	v := new(big.Int).SetUint64(m.Currency)
	v.Mul(v, e18)
	return v.Add(v, new(big.Int).SetUint64(m.SupplementaryCurrency))
}

func canonical(m spice.Melange) bool { return m.SupplementaryCurrency < 1_000_000_000_000_000_000 }

func sortedStrings(m map[string]bool) []string {
	out := make([]string, 0, len(m))
	for k := range m {
		out = append(out, k)
	}
	sort.Strings(out)
	return out
}

// noteTruncErr records a failed synchronous truncation. Production turns every truncation error but
// "nothing to truncate" into a fatal exit; the hook hands it to the harness instead and the node lives on
// in a state production never continues from.
func (w *World) noteTruncErr(node int, err error) {
	if err == nil || errors.Is(err, accountant.ErrNothingToTruncate) || strings.Contains(err.Error(), "nothing to truncate") {
		return
	}
	if w.truncFailed == nil {
		w.truncFailed = map[int]bool{}
	}
	w.truncFailed[node] = true
}
