package harness

import (
	"context"
	"crypto/sha256"
	"fmt"
	"sort"
	"strings"
	"time"

	"github.com/bartossh/Computantis/src/cache"
	pb "github.com/bartossh/Computantis/src/protobufcompiled"
	"github.com/bartossh/Computantis/src/spice"
	"github.com/bartossh/Computantis/src/transaction"
	"github.com/bartossh/Computantis/src/transformers"
	"github.com/bartossh/Computantis/src/wallet"
	"verif.local/simrt"
)

// C16: honest and dishonest clients against the notary handlers, judged by a reference
// state machine (awaiting sets per node, challenges per node and address, who may seal what).

type refContract struct {
	trx              transaction.Transaction
	savedAt          map[int]int64 // node -> time it became awaiting there (by propose or gossip)
	removed          map[int]bool
	mayBeSealed      bool // a valid confirm or a receiver-signed reject was issued for it
	spoiled          bool // sealed through the subject/data boundary attack (known finding): no longer judged
	issuer, receiver int
}

type refNotary struct {
	contracts   map[Hash]*refContract
	order       []Hash
	transfers   map[Hash]bool     // pure transfers validly proposed
	challenge   map[string][]byte // node|address -> blob
	challengeAt map[string]int64
}

func signedHashFor(wl *wallet.Wallet, data []byte) *pb.SignedHash {
	d, sig := wl.Sign(data)
	return &pb.SignedHash{Address: wl.Address(), Data: data, Hash: d[:], Signature: sig}
}

func hasContent(m any, err error) bool {
	if err != nil {
		return false
	}
	switch x := m.(type) {
	case *pb.Transactions:
		return x != nil
	case *pb.Spice:
		return x != nil
	case *pb.Transaction:
		return x != nil
	}
	return false
}

func notaryScenario(w *World, p *Plan, rec *Record) {
	if err := w.bootstrap(); err != nil {
		rec.Infra = "bootstrap: " + err.Error()
		return
	}
	ref := &refNotary{contracts: map[Hash]*refContract{}, transfers: map[Hash]bool{}, challenge: map[string][]byte{}, challengeAt: map[string]int64{}}
	awaitLife, _ := cache.VerifWindows()
	chalLife := time.Duration(w.dataLongevity) * time.Second
	nw := len(w.Wallets)
	r0 := newPRNG(p.Seed ^ 0xC16)
	nops := 14 + r0.Intn(22)
	honestReads, honestOK := 0, 0
	var samples []string
	fine := p.Cfg.PreemptP > 0

	call := func(n *Node, name string, f func(ctx context.Context) (any, error)) (out any, err error, done bool) {
		var res StepResult
		w.spawnOp(fmt.Sprintf("client->n%d:%s", n.Idx, name), n, &res, func(ctx context.Context) error {
			out, err = f(ctx)
			return nil
		})
		if !w.waitOps(opBudget) {
			w.violate("C08", "no-return", "notary:"+name, n.Idx, "%s did not return", name)
			return nil, nil, false
		}
		if res.Panic != "" {
			w.violate("C15", "panic", "notary."+name+"@"+res.Panic, n.Idx, "%s", res.Panic)
			return nil, nil, false
		}
		return out, err, true
	}
	stateOf := func(n *Node) string { return w.stateDigest(n) }
	// notice awaiting entries that gossip created on other nodes
	syncAwaiting := func() {
		for _, c := range w.AccCalls {
			if c.Op == "SaveAwaited" && c.Err == "" {
				if rc := ref.contracts[c.Hash]; rc != nil {
					if _, ok := rc.savedAt[c.Node]; !ok {
						rc.savedAt[c.Node] = c.At
					}
				}
			}
		}
	}
	expectListing := func(n *Node, addr int) (must, may map[Hash]bool) {
		must, may = map[Hash]bool{}, map[Hash]bool{}
		now := simrt.Now()
		for h, rc := range ref.contracts {
			at, ok := rc.savedAt[n.Idx]
			if !ok || rc.removed[n.Idx] || (rc.issuer != addr && rc.receiver != addr) {
				continue
			}
			may[h] = true
			// once the receiver acted, the sealing vertex travels and takes the entry off other nodes' lists
			if now-at < int64(awaitLife)-int64(time.Second) && !rc.mayBeSealed {
				must[h] = true
			}
		}
		return
	}

	for k := 0; k < nops && len(w.stuck) == 0; k++ {
		if !w.opEnabled(k) {
			continue
		}
		r := w.opRNG(k)
		n := w.Nodes[r.Intn(len(w.Nodes))]
		if !n.Alive {
			continue
		}
		w.stepIdx = k
		kind := []string{"propose-transfer", "propose-contract", "propose-contract", "confirm", "confirm", "reject", "attack-confirm", "attack-reject", "attack-propose", "waiting", "attack-read", "balance", "history", "dup-confirm", "clock"}[r.Intn(15)]
		desc := kind
		syncAwaiting()
		pickContract := func(onNode bool) *refContract {
			var c []*refContract
			for _, h := range ref.order {
				rc := ref.contracts[h]
				if rc.spoiled {
					continue
				}
				if onNode {
					if _, ok := rc.savedAt[n.Idx]; !ok || rc.removed[n.Idx] {
						continue
					}
				}
				c = append(c, rc)
			}
			if len(c) == 0 {
				return nil
			}
			return c[r.Intn(len(c))]
		}
		switch kind {
		case "clock":
			d := time.Duration(1+r.Intn(int(chalLife/time.Second)+30)) * time.Second
			simrt.SleepFor(d)
			w.fault("clock-jump")
			desc += " " + d.String()
		case "propose-transfer":
			from, to := 0, 1+r.Intn(nw-1)
			t, err := transaction.New("pay", spice.Melange{SupplementaryCurrency: uint64(1 + r.Intn(1000))}, nil, w.WAddr[to], w.Wallets[from])
			if err != nil {
				continue
			}
			pt, _ := protoOf(&t)
			_, err, ok := call(n, "Propose", func(ctx context.Context) (any, error) { return n.Notary.Propose(ctx, pt) })
			if ok && err == nil {
				ref.transfers[t.Hash] = true
				w.probe("c16-transfer-proposed")
			}
		case "propose-contract":
			from, to := r.Intn(nw), r.Intn(nw)
			for to == from {
				to = r.Intn(nw)
			}
			amount := spice.Melange{}
			if r.Chance(0.3) && from == 0 {
				amount.SupplementaryCurrency = uint64(1 + r.Intn(500))
			}
			t, err := transaction.New("contract", amount, r.Bytes(1+r.Intn(60)), w.WAddr[to], w.Wallets[from])
			if err != nil {
				continue
			}
			pt, _ := protoOf(&t)
			_, err, ok := call(n, "Propose", func(ctx context.Context) (any, error) { return n.Notary.Propose(ctx, pt) })
			if ok && err == nil {
				ref.contracts[t.Hash] = &refContract{trx: t, savedAt: map[int]int64{n.Idx: simrt.Now()}, removed: map[int]bool{}, issuer: from, receiver: to}
				ref.order = append(ref.order, t.Hash)
				w.probe("c16-contract-awaiting")
			}
			simrt.SleepFor(time.Duration(r.Intn(150)) * time.Millisecond)
		case "confirm", "dup-confirm":
			rc := pickContract(kind == "confirm")
			if rc == nil {
				continue
			}
			t := rc.trx
			if _, err := t.Sign(w.Wallets[rc.receiver], w.Verifier); err != nil {
				w.probe("c16-receiver-sign-refused") // e.g. expired after a clock jump
				continue
			}
			pt, _ := protoOf(&t)
			rc.mayBeSealed = true
			dup := kind == "dup-confirm" || (fine && r.Chance(0.3))
			if dup {
				// the same confirmation twice, concurrently in fine mode
				var r2 StepResult
				n2 := n
				if r.Chance(0.4) {
					n2 = w.Nodes[r.Intn(len(w.Nodes))]
				}
				pt2, _ := protoOf(&t)
				w.spawnOp(fmt.Sprintf("client->n%d:Confirm-dup", n2.Idx), n2, &r2, func(ctx context.Context) error {
					_, err := n2.Notary.Confirm(ctx, pt2)
					if err == nil {
						rc.removed[n2.Idx] = true
					}
					return nil
				})
				w.probe("c16-duplicate-confirm")
			}
			_, err, ok := call(n, "Confirm", func(ctx context.Context) (any, error) { return n.Notary.Confirm(ctx, pt) })
			if ok && err == nil {
				rc.removed[n.Idx] = true
				w.probe("c16-confirmed")
			}
		case "reject":
			rc := pickContract(true)
			if rc == nil {
				continue
			}
			req := signedHashFor(w.Wallets[rc.receiver], rc.trx.Hash[:])
			rc.mayBeSealed = true
			_, err, ok := call(n, "Reject", func(ctx context.Context) (any, error) { return n.Notary.Reject(ctx, req) })
			if ok && err == nil {
				rc.removed[n.Idx] = true
				w.probe("c16-rejected-by-receiver")
			}
		case "attack-confirm", "attack-reject", "attack-propose":
			rc := pickContract(r.Chance(0.7))
			var f func(ctx context.Context) (any, error)
			name := ""
			switch kind {
			case "attack-confirm":
				if rc == nil {
					continue
				}
				t := rc.trx
				variant := []string{"receiver-signature-by-other-key", "issuer-confirms-for-receiver", "receiver-signature-over-other-content", "no-receiver-signature", "garbage-signature"}[r.Intn(5)]
				desc += ":" + variant
				name = "Confirm"
				switch variant {
				case "receiver-signature-by-other-key":
					third := (rc.receiver + 1) % nw
					if third == rc.issuer {
						third = (third + 1) % nw
					}
					if third == rc.receiver {
						continue
					}
					_, t.ReceiverSignature = w.Wallets[third].Sign(t.GetMessage())
				case "issuer-confirms-for-receiver":
					_, t.ReceiverSignature = w.Wallets[rc.issuer].Sign(t.GetMessage())
				case "receiver-signature-over-other-content":
					t2 := t
					t2.Data = append([]byte("x"), t.Data...)
					_, t.ReceiverSignature = w.Wallets[rc.receiver].Sign(t2.GetMessage())
				case "no-receiver-signature":
					t.ReceiverSignature = nil
				default:
					t.ReceiverSignature = r.Bytes(64)
				}
				pt, _ := protoOf(&t)
				f = func(ctx context.Context) (any, error) { return n.Notary.Confirm(ctx, pt) }
			case "attack-reject":
				if rc == nil {
					continue
				}
				name = "Reject"
				variant := []string{"third-party", "issuer", "receiver-address-other-key"}[r.Intn(3)]
				desc += ":" + variant
				var req *pb.SignedHash
				switch variant {
				case "third-party":
					third := (rc.receiver + 1) % nw
					if third == rc.receiver {
						continue
					}
					req = signedHashFor(w.Wallets[third], rc.trx.Hash[:])
				case "issuer":
					req = signedHashFor(w.Wallets[rc.issuer], rc.trx.Hash[:])
				default:
					req = signedHashFor(w.adversary(), rc.trx.Hash[:])
					req.Address = w.WAddr[rc.receiver]
				}
				f = func(ctx context.Context) (any, error) { return n.Notary.Reject(ctx, req) }
			default:
				name = "Propose"
				from, to := r.Intn(nw), r.Intn(nw)
				t, err := transaction.New("forged", spice.Melange{SupplementaryCurrency: 5}, r.Bytes(r.Intn(10)), w.WAddr[to], w.Wallets[from])
				if err != nil {
					continue
				}
				variant := []string{"signature-by-other-key", "altered-amount", "altered-receiver", "contract-reframed-as-transfer"}[r.Intn(4)]
				var reframed *refContract
				if variant == "contract-reframed-as-transfer" {
					// a bystander re-sends an awaiting contract that also moves spice with its data bytes appended to
					// the subject: hash and issuer signature still verify (C04's known boundary weakness), and the
					// notary takes a transaction without data for a pure transfer
					for _, h := range ref.order {
						rc := ref.contracts[h]
						if _, on := rc.savedAt[n.Idx]; on && !rc.removed[n.Idx] && !rc.mayBeSealed && !rc.spoiled && (rc.trx.Spice.Currency != 0 || rc.trx.Spice.SupplementaryCurrency != 0) {
							reframed = rc
						}
					}
					if reframed == nil {
						variant = "altered-amount"
					}
				}
				desc += ":" + variant
				switch variant {
				case "contract-reframed-as-transfer":
					t = reframed.trx
					t.Subject, t.Data = t.Subject+string(t.Data), nil
					pt, _ := protoOf(&t)
					_, err, ok := call(n, name, func(ctx context.Context) (any, error) { return n.Notary.Propose(ctx, pt) })
					if ok {
						w.fault("dishonest-client:" + kind)
						w.probe("c16-contract-reframed-as-transfer-offered")
						if err == nil {
							reframed.spoiled, reframed.mayBeSealed = true, true
							ref.transfers[t.Hash] = true
							w.violate("C16", "sealed", "contract-sealed-without-receiver:subject-data-boundary", n.Idx, "contract %s with spice %v sealed by a bystander's Propose", hx(t.Hash), t.Spice)
						}
					}
					continue
				case "signature-by-other-key":
					_, t.IssuerSignature = w.adversary().Sign(t.GetMessage())
				case "altered-amount":
					t.Spice.Currency += 1000
				default:
					t.ReceiverAddress = w.adversary().Address()
				}
				pt, _ := protoOf(&t)
				f = func(ctx context.Context) (any, error) { return n.Notary.Propose(ctx, pt) }
			}
			before := stateOf(n)
			netMark, callMark := len(w.Net.Log), len(w.AccCalls)
			quietBefore := w.Net.quiet() // a message sent earlier and delivered inside the window is other activity too
			_, err, ok := call(n, name, f)
			if !ok {
				continue
			}
			w.fault("dishonest-client:" + kind)
			if err == nil {
				w.violate("C16", "accepted", "invalid-request-accepted:"+desc, n.Idx, "%s returned no error", name)
			}
			simrt.SleepFor(30 * time.Millisecond)
			if after := stateOf(n); stateChanged(before, after) && quietBefore && w.Net.quiet() && netMark == len(w.Net.Log) && callMark == len(w.AccCalls) && !w.ledgerMovedLegitimately(n) {
				w.violate("C16", "state", "invalid-request-changed-state:"+desc, n.Idx, "%s changed %s (%s)", name, stateDiff(before, after), w.cacheDelta(n.Idx))
			}
		case "waiting", "history", "balance":
			a := r.Intn(nw)
			wl := w.Wallets[a]
			key := fmt.Sprintf("%d|%s", n.Idx, wl.Address())
			var out any
			var err error
			ok := false
			honestReads++
			switch kind {
			case "balance":
				req := signedHashFor(wl, []byte(wl.Address()))
				out, err, ok = call(n, "Balance", func(ctx context.Context) (any, error) { return n.Notary.Balance(ctx, req) })
			default:
				blob, e2, ok2 := call(n, "Data", func(ctx context.Context) (any, error) { return n.Notary.Data(ctx, &pb.Address{Public: wl.Address()}) })
				if !ok2 || e2 != nil {
					continue
				}
				ch := blob.(*pb.DataBlob).Blob
				ref.challenge[key], ref.challengeAt[key] = ch, simrt.Now()
				if r.Chance(0.15) {
					simrt.SleepFor(time.Duration(r.Intn(int(chalLife/time.Second)/2)) * time.Second)
				}
				req := signedHashFor(wl, ch)
				if kind == "waiting" {
					out, err, ok = call(n, "Waiting", func(ctx context.Context) (any, error) { return n.Notary.Waiting(ctx, req) })
				} else {
					out, err, ok = call(n, "TransactionsInDAG", func(ctx context.Context) (any, error) { return n.Notary.TransactionsInDAG(ctx, req) })
				}
			}
			if !ok {
				continue
			}
			if err == nil {
				honestOK++
				w.probe("c16-honest-read-served")
			}
			if kind == "waiting" && err == nil {
				syncAwaiting()
				must, may := expectListing(n, a)
				got := map[Hash]bool{}
				for _, t := range out.(*pb.Transactions).Array {
					got[toHash(t.Hash)] = true
				}
				for h := range got {
					if !may[h] {
						w.violate("C16", "listing", "waiting-list-holds-foreign-or-removed-transaction", n.Idx, "trx %s for wallet %d", hx(h), a)
					}
				}
				for h := range must {
					if !got[h] && w.Net.quiet() {
						w.violate("C16", "listing", "awaiting-transaction-missing-from-waiting-list", n.Idx, "trx %s for wallet %d", hx(h), a)
					}
				}
			}
			if kind == "history" && err == nil {
				for _, t := range out.(*pb.Transactions).Array {
					if t.IssuerAddress != wl.Address() && t.ReceiverAddress != wl.Address() {
						w.violate("C16", "confidentiality", "history-returns-foreign-transaction", n.Idx, "trx %x", t.Hash[:6])
					}
				}
			}
		case "attack-read":
			victim := r.Intn(nw)
			vw := w.Wallets[victim]
			adv := w.adversary()
			endpoint := []string{"Waiting", "TransactionsInDAG", "Balance"}[r.Intn(3)]
			variant := []string{"no-challenge", "stale-challenge", "other-address-challenge", "signed-by-other-key", "own-address-asks-for-victim"}[r.Intn(5)]
			desc += ":" + endpoint + ":" + variant
			var req *pb.SignedHash
			key := fmt.Sprintf("%d|%s", n.Idx, vw.Address())
			fresh := func(addr string) []byte {
				blob, e2, ok2 := call(n, "Data", func(ctx context.Context) (any, error) { return n.Notary.Data(ctx, &pb.Address{Public: addr}) })
				if !ok2 || e2 != nil {
					return nil
				}
				return blob.(*pb.DataBlob).Blob
			}
			legit := false // a variant may be a perfectly valid request after all
			switch variant {
			case "no-challenge":
				req = signedHashFor(vw, r.Bytes(128))
				if _, has := ref.challenge[key]; has {
					// some earlier challenge exists; random bytes never equal it
				}
			case "stale-challenge":
				ch := fresh(vw.Address())
				if ch == nil {
					continue
				}
				simrt.SleepFor(chalLife + time.Duration(1+r.Intn(20))*time.Second)
				w.fault("clock-jump")
				req = signedHashFor(vw, ch)
			case "other-address-challenge":
				ch := fresh(adv.Address())
				if ch == nil {
					continue
				}
				req = signedHashFor(vw, ch) // victim's key is not available to an attacker, but even so the blob belongs to another address
				req = &pb.SignedHash{Address: vw.Address(), Data: ch, Hash: req.Hash, Signature: req.Signature}
			case "signed-by-other-key":
				ch := fresh(vw.Address())
				if ch == nil {
					continue
				}
				req = signedHashFor(adv, ch)
				req.Address = vw.Address()
			default:
				ch := fresh(adv.Address())
				if ch == nil {
					continue
				}
				req = signedHashFor(adv, ch)
				legit = true // the attacker legitimately reads its own (empty) data: must not contain the victim's
			}
			if endpoint == "Balance" {
				switch variant {
				case "signed-by-other-key", "own-address-asks-for-victim":
					req = signedHashFor(adv, []byte(vw.Address()))
					if variant == "signed-by-other-key" {
						req.Address = vw.Address()
					}
					legit = false
				case "no-challenge", "stale-challenge", "other-address-challenge":
					// balance needs no challenge: a request signed by the victim itself is honest
					continue
				}
			}
			var out any
			var err error
			ok := false
			switch endpoint {
			case "Waiting":
				out, err, ok = call(n, endpoint, func(ctx context.Context) (any, error) { return n.Notary.Waiting(ctx, req) })
			case "TransactionsInDAG":
				out, err, ok = call(n, endpoint, func(ctx context.Context) (any, error) { return n.Notary.TransactionsInDAG(ctx, req) })
			default:
				out, err, ok = call(n, endpoint, func(ctx context.Context) (any, error) { return n.Notary.Balance(ctx, req) })
			}
			if !ok {
				continue
			}
			w.fault("dishonest-client:attack-read")
			if !legit && hasContent(out, err) {
				w.violate("C16", "confidentiality", "read-served-without-proof-of-key-ownership:"+endpoint+":"+variant, n.Idx, "victim wallet %d", victim)
			}
			if legit && err == nil {
				if ts, isT := out.(*pb.Transactions); isT {
					for _, t := range ts.Array {
						if t.IssuerAddress != adv.Address() && t.ReceiverAddress != adv.Address() {
							w.violate("C16", "confidentiality", "read-returns-foreign-data:"+endpoint, n.Idx, "trx %x", t.Hash[:6])
						}
					}
				}
			}
		}
		if len(samples) < 14 {
			samples = append(samples, fmt.Sprintf("n%d %s", n.Idx, desc))
		}
		simrt.SleepFor(time.Duration(r.Intn(120)) * time.Millisecond)
		snaps := w.observe()
		w.c16SealedOracle(ref, snaps)
	}
	w.settle()
	w.waitOps(opBudget)
	snaps := w.observe()
	w.c16SealedOracle(ref, snaps)
	// a transfer accepted by Propose must be in the proposing node's ledger; a sealed transfer must have been proposed
	if honestReads >= 4 {
		w.Probes["c16-honest-reads"] += int64(honestReads)
	}
	rec.Nontrivial = len(ref.contracts) > 0
	sort.Strings(samples)
	rec.Sample = map[string]any{"ops": samples, "contracts": len(ref.contracts), "honest_reads": honestReads, "honest_reads_served": honestOK}
	_ = strings.Join
	_ = sha256.Sum256
	_ = transformers.ErrProcessing
}

// c16SealedOracle: a data-carrying transaction is in a ledger only if the receiver acted on
// it; a pure transfer only if it was validly proposed.
func (w *World) c16SealedOracle(ref *refNotary, snaps map[int]*Snap) {
	for idx, s := range snaps {
		for h, sv := range s.Live {
			t := &sv.V.Transaction
			if isGenesisShape(&sv.V) {
				continue
			}
			if len(t.Data) > 0 {
				rc := ref.contracts[t.Hash]
				switch {
				case rc == nil:
					w.violate("C16", "sealed", "unknown-contract-in-ledger", idx, "vertex %s", hx(h))
				case !rc.mayBeSealed:
					w.violate("C16", "sealed", "contract-sealed-without-receiver-action", idx, "vertex %s trx %s", hx(h), hx(t.Hash))
				}
			} else if !ref.transfers[t.Hash] {
				w.violate("C16", "sealed", "transfer-sealed-without-valid-proposal", idx, "vertex %s", hx(h))
			}
		}
	}
}

func init() {
	scenarios["notary"] = notaryScenario
	generators["C16"] = func(r *prng, seed uint64, tier string) *Plan {
		cfg := Config{Nodes: 1 + r.Intn(3), Wallets: 3 + r.Intn(2), SupplyCur: 1000, LatMinMS: 2, LatJitMS: 30, DataSize: 2048, StreamBuf: 4, SettleMS: 1500, Spread: 1 + r.Intn(3)}
		if r.Chance(0.4) {
			cfg.PreemptP = []float64{0.05, 0.2, 0.4}[r.Intn(3)]
		}
		if cfg.Nodes > 1 && r.Chance(0.4) {
			cfg.DupP, cfg.SpikeP = 0.2, 0.1
		}
		return &Plan{Scenario: "notary", Cfg: cfg}
	}
	nontrivialRule["C16"] = "one evaluation = one seeded run on 1-3 real nodes: 14-35 client operations through the real notary handlers (honest propose/confirm/reject/reads, and dishonest variants: wrong key, issuer confirming, third-party reject, signature over other content, replayed and concurrent duplicate confirms, reads with no/stale/foreign challenge or foreign key, clock jumps past the challenge expiry), each judged against a reference notary; non-trivial = at least one contract became awaiting. distinct = trace hash"
}
