package harness

import (
	"fmt"
	"time"

	"google.golang.org/protobuf/proto"

	"github.com/bartossh/Computantis/src/accountant"
	"github.com/bartossh/Computantis/src/gossip"
	pb "github.com/bartossh/Computantis/src/protobufcompiled"
	"github.com/bartossh/Computantis/src/spice"
	"github.com/bartossh/Computantis/src/transaction"
	"github.com/bartossh/Computantis/src/transformers"
	"verif.local/simrt"
)

// C19: every crossing between representations. Timestamps that lie ahead of the bubble's
// start are produced by the code itself after jumping the simulated clock (a genuine
// clock dependency of the encoders: msgpack switches timestamp formats at 2^32 s and
// 2^34 s); earlier ones and all other field boundaries are constructed directly, which is
// input enumeration and is labelled so.

var c19Lens = []int{0, 1, 31, 32, 33, 255, 256, 65535, 65536}
var c19Ints = []uint64{0, 1, 127, 128, 255, 256, 65535, 65536, 1<<32 - 1, 1 << 32, 1<<63 - 1, 1 << 63, ^uint64(0)}

func fillBytes(r *prng, n int, mode int) []byte {
	b := make([]byte, n)
	for i := range b {
		switch mode {
		case 0:
			b[i] = 'a' + byte(i%26)
		case 1:
			b[i] = byte(r.Uint64())
		default:
			b[i] = 0xff // never valid UTF-8
		}
	}
	return b
}

func (w *World) c19Cross(v *accountant.Vertex, label string) {
	okBefore := refVertexOK(v) && refTrxOK(&v.Transaction)
	// (1) wire: vertex
	p := gossip.VerifVertexToProto(v)
	raw, err := proto.Marshal(p)
	if err != nil {
		w.probe("c19-wire-encode-refused")
	} else {
		q := &pb.Vertex{}
		if err := proto.Unmarshal(raw, q); err != nil {
			w.violate("C19", "wire", "vertex-does-not-decode-from-own-encoding", -1, "%s: %v", label, err)
		} else {
			back := gossip.VerifProtoToVertex(q)
			w.probe("c19-wire-vertex-crossings")
			if !sameSigned(&back, v) {
				w.violate("C19", "wire", "vertex-differs-after-wire-crossing:"+diffField(v, &back), -1, "%s", label)
			} else if ok := refVertexOK(&back) && refTrxOK(&back.Transaction); ok != okBefore {
				w.violate("C19", "wire", "vertex-verifies-differently-after-wire-crossing", -1, "%s: %v -> %v", label, okBefore, ok)
			}
		}
	}
	// (2) wire: transaction through the transformers
	if pt, err := transformers.TrxToProtoTrx(v.Transaction); err == nil {
		if raw, err := proto.Marshal(pt); err == nil {
			q := &pb.Transaction{}
			if err := proto.Unmarshal(raw, q); err == nil {
				if back, err := transformers.ProtoTrxToTrx(q); err == nil {
					w.probe("c19-wire-trx-crossings")
					if !sameTrx(&back, &v.Transaction) {
						w.violate("C19", "wire", "transaction-differs-after-wire-crossing:"+diffTrx(&v.Transaction, &back), -1, "%s", label)
					}
				} else {
					w.probe("c19-wire-trx-refused")
					t := &v.Transaction
					if t.Subject != "" && t.IssuerAddress != "" && t.ReceiverAddress != "" && len(t.IssuerSignature) > 0 {
						// a complete transaction must survive the crossing; only content the wire format cannot
						// carry (text that is not UTF-8) is refused at encoding, before this point
						w.violate("C19", "wire", "complete-transaction-refused-by-wire-mapper", -1, "%s: %v (created at %d ns)", label, err, t.CreatedAt.UnixNano())
					}
				}
			}
		} else {
			w.probe("c19-wire-encode-refused")
		}
	} else {
		w.probe("c19-wire-trx-refused")
	}
	// (3) storage: vertex msgpack (one library encodes, another decodes)
	if buf, err := accountant.VerifEncodeVertex(v); err == nil {
		back, err := accountant.VerifDecodeVertex(buf)
		w.probe("c19-storage-vertex-crossings")
		if err != nil {
			w.violate("C19", "storage", "stored-vertex-does-not-decode", -1, "%s: %v", label, err)
		} else if !sameSigned(&back, v) {
			w.violate("C19", "storage", "vertex-differs-after-storage-crossing:"+diffField(v, &back), -1, "%s", label)
		} else if ok := refVertexOK(&back) && refTrxOK(&back.Transaction); ok != okBefore {
			w.violate("C19", "storage", "vertex-verifies-differently-after-storage-crossing", -1, "%s", label)
		}
	} else {
		w.probe("c19-storage-encode-refused")
	}
	// (4) cache: transaction msgpack
	t := v.Transaction
	if buf, err := t.Encode(); err == nil {
		back, err := transaction.Decode(buf)
		w.probe("c19-cache-trx-crossings")
		if err != nil {
			w.violate("C19", "cache", "cached-transaction-does-not-decode", -1, "%s: %v", label, err)
		} else if !sameTrx(&back, &t) {
			w.violate("C19", "cache", "transaction-differs-after-cache-crossing:"+diffTrx(&t, &back), -1, "%s", label)
		}
	}
	// (5) amounts and balances
	m := v.Transaction.Spice
	if buf, err := m.Encode(); err == nil {
		back, err := spice.Decode(buf)
		if err != nil || back != m {
			w.violate("C19", "storage", "amount-differs-after-storage-crossing", -1, "%s: %v -> %v (%v)", label, m, back, err)
		}
	}
	bal := accountant.Balance{AccountedAt: v.CreatedAt, WalletPublicAddress: v.SignerPublicAddress, Spice: m}
	if buf, err := accountant.VerifEncodeBalance(&bal); err == nil {
		back, err := accountant.VerifDecodeBalance(buf)
		if err != nil || back.Spice != m || back.WalletPublicAddress != bal.WalletPublicAddress || back.AccountedAt.UnixNano() != bal.AccountedAt.UnixNano() {
			w.violate("C19", "storage", "balance-differs-after-storage-crossing", -1, "%s: %v", label, err)
		}
	}
}

func diffField(a, b *accountant.Vertex) string {
	switch {
	case a.Hash != b.Hash:
		return "hash"
	case a.SignerPublicAddress != b.SignerPublicAddress:
		return "signer"
	case a.CreatedAt.UnixNano() != b.CreatedAt.UnixNano():
		return "created-at"
	case string(a.Signature) != string(b.Signature):
		return "signature"
	case a.LeftParentHash != b.LeftParentHash || a.RightParentHash != b.RightParentHash:
		return "parents"
	case a.Weight != b.Weight:
		return "weight"
	}
	return "transaction." + diffTrx(&a.Transaction, &b.Transaction)
}

func diffTrx(a, b *transaction.Transaction) string {
	switch {
	case a.Hash != b.Hash:
		return "hash"
	case a.IssuerAddress != b.IssuerAddress || a.ReceiverAddress != b.ReceiverAddress:
		return "address"
	case a.Subject != b.Subject:
		return "subject"
	case string(a.Data) != string(b.Data):
		return "data"
	case a.CreatedAt.UnixNano() != b.CreatedAt.UnixNano():
		return "created-at"
	case string(a.IssuerSignature) != string(b.IssuerSignature):
		return "issuer-signature"
	case string(a.ReceiverSignature) != string(b.ReceiverSignature):
		return "receiver-signature"
	case a.Spice != b.Spice:
		return "spice"
	}
	return "none"
}

func codecScenario(w *World, p *Plan, rec *Record) {
	r := newPRNG(p.Seed ^ 0xC19)
	iss, rcv, sealer := w.Wallets[0], w.Wallets[1], w.adversary()
	mk := func(subject string, data []byte, cur, sup, weight uint64, counter bool) (*accountant.Vertex, error) {
		trx, err := transaction.New(subject, spice.Melange{Currency: cur, SupplementaryCurrency: sup}, data, rcv.Address(), iss)
		if err != nil {
			return nil, err
		}
		if counter {
			if _, err := trx.Sign(rcv, w.Verifier); err != nil {
				return nil, err
			}
		}
		var l, rr Hash
		copy(l[:], r.Bytes(32))
		copy(rr[:], r.Bytes(32))
		v, err := accountant.NewVertex(trx, l, rr, weight, sealer)
		return &v, err
	}
	var samples []string
	// clock-driven timestamps: the vertex is created by the real constructors after each jump
	start := time.Now()
	targets := []time.Time{start, time.Unix(1<<32-1, 999999999), time.Unix(1<<32, 0), time.Unix(1<<32, 1), time.Date(2262, 3, 1, 0, 0, 0, 999999999, time.UTC)}
	// (the fake clock is int64 nanoseconds: 2^34 s and the int64 limits themselves are constructed below)
	for _, tgt := range targets {
		if d := time.Until(tgt); d > 0 {
			for d > 0 {
				step := d
				if step > 200*365*24*time.Hour {
					step = 200 * 365 * 24 * time.Hour
				}
				time.Sleep(step)
				d -= step
			}
			w.fault("clock-jump")
		}
		v, err := mk("clock", fillBytes(r, c19Lens[r.Intn(5)], 1), c19Ints[r.Intn(len(c19Ints))], r.Uint64()%e18u, c19Ints[r.Intn(len(c19Ints))], r.Chance(0.5))
		if err != nil {
			w.probe("c19-constructor-refused")
			continue
		}
		label := fmt.Sprintf("clock at %s", time.Now().UTC().Format(time.RFC3339Nano))
		w.c19Cross(v, label)
		if len(samples) < 6 {
			samples = append(samples, label)
		}
	}
	// constructed boundary product slice: lengths x integers, chosen by the seed
	for k := 0; k < 40; k++ {
		sl := c19Lens[r.Intn(len(c19Lens))]
		if sl == 0 {
			sl = 1
		}
		dl := c19Lens[r.Intn(len(c19Lens))]
		subj := string(fillBytes(r, sl, r.Intn(3)))
		v, err := mk(subj, fillBytes(r, dl, 1), c19Ints[r.Intn(len(c19Ints))], c19Ints[r.Intn(len(c19Ints))], c19Ints[r.Intn(len(c19Ints))], r.Chance(0.3))
		if err != nil {
			w.probe("c19-constructor-refused")
			continue
		}
		// constructed timestamps (cannot be reached by a forward-only clock)
		switch r.Intn(8) {
		case 5:
			v.CreatedAt = time.Unix(1<<34-1, 999999999)
		case 6:
			v.CreatedAt = time.Unix(1<<34, 0)
		case 0:
			v.CreatedAt = time.Unix(0, 0)
		case 1:
			v.CreatedAt = time.Unix(-1, 0)
		case 2:
			v.CreatedAt = time.Unix(0, -9223372036854775808)
		case 3:
			v.CreatedAt = time.Unix(0, 9223372036854775807)
		case 4:
			v.Transaction.CreatedAt = []time.Time{time.Unix(0, 1), time.Unix(0, 0), time.Unix(0, -1), time.Unix(0, -9223372036854775808), time.Unix(0, 9223372036854775807), time.Unix(1<<34, 0)}[r.Intn(6)]
		}
		// signatures of odd lengths are legal byte strings on every crossing
		if r.Chance(0.2) {
			v.Signature = fillBytes(r, c19Lens[r.Intn(len(c19Lens))], 1)
		}
		label := fmt.Sprintf("subject %d bytes, data %d bytes, amount {%d,%d}, weight %d, created %d", len(subj), dl, v.Transaction.Spice.Currency, v.Transaction.Spice.SupplementaryCurrency, v.Weight, v.CreatedAt.UnixNano())
		w.c19Cross(v, label)
		if len(samples) < 6 {
			samples = append(samples, label)
		}
	}
	simrt.Logf("case", "codec seed %d", p.Seed)
	rec.Nontrivial = true
	rec.Sample = samples
}

func init() {
	scenarios["codec"] = codecScenario
	generators["C19"] = func(r *prng, seed uint64, tier string) *Plan {
		return &Plan{Scenario: "codec", Cfg: Config{Wallets: 2}}
	}
	nontrivialRule["C19"] = "one evaluation = one seeded run: vertices created by the real constructors after jumping the simulated clock to the msgpack timestamp switch points, plus 40 constructed boundary vertices (field lengths 0..65536, integers at 2^7..2^64, non-UTF-8 text); each is sent through wire (protobuf), storage (msgpack encode/decode pair) and cache crossings; the same crossings also run inside every net-sim run of the other checks. distinct = distinct seed slice (trace hash)"
}
