package harness

import (
	"crypto/sha256"
	"encoding/binary"
	"encoding/hex"
	"fmt"
	"sort"
)

// prng is the harness's own generator (SplitMix64): plan generation and world set-up.
type prng struct{ s uint64 }

func newPRNG(seed uint64) *prng { return &prng{s: seed*0x9E3779B97F4A7C15 + 0x1234567} }

func (p *prng) Uint64() uint64 {
	p.s += 0x9E3779B97F4A7C15
	z := p.s
	z = (z ^ (z >> 30)) * 0xBF58476D1CE4E5B9
	z = (z ^ (z >> 27)) * 0x94D049BB133111EB
	return z ^ (z >> 31)
}

func (p *prng) Intn(n int) int {
	if n <= 1 {
		return 0
	}
	return int(p.Uint64() % uint64(n))
}

func (p *prng) Float() float64 { return float64(p.Uint64()>>11) / float64(1<<53) }

func (p *prng) Chance(f float64) bool { return p.Float() < f }

func (p *prng) Bytes(n int) []byte {
	b := make([]byte, n)
	for i := range b {
		b[i] = byte(p.Uint64())
	}
	return b
}

func (p *prng) Perm(n int) []int {
	a := make([]int, n)
	for i := range a {
		a[i] = i
	}
	for i := n - 1; i > 0; i-- {
		j := p.Intn(i + 1)
		a[i], a[j] = a[j], a[i]
	}
	return a
}

type hasher struct{ h [32]byte }

func (x *hasher) add(b []byte) {
	s := sha256.New()
	s.Write(x.h[:])
	var l [8]byte
	binary.LittleEndian.PutUint64(l[:], uint64(len(b)))
	s.Write(l[:])
	s.Write(b)
	copy(x.h[:], s.Sum(nil))
}

func (x *hasher) String() string { return hex.EncodeToString(x.h[:8]) }

func sortStrings(s []string) { sort.Strings(s) }

// shortAddr abbreviates an address for messages (addresses can be any text, also shorter than 8 bytes).
func shortAddr(a string) string {
	if len(a) > 8 {
		a = a[:8]
	}
	return fmt.Sprintf("%q", a)
}
