package harness

import (
	"bufio"
	"encoding/json"
	"flag"
	"fmt"
	"os"
	"strings"
	"sync/atomic"
	"testing"
	"time"
)

var (
	flagDrive    = flag.String("sim.drive", "", "driver: property id")
	flagTier     = flag.String("sim.tier", "quick", "driver: tier")
	flagSeed     = flag.Uint64("sim.seed", 1, "driver: VERIF_SEED")
	flagRuns     = flag.Int("sim.runs", 100, "driver: number of runs")
	flagWorkers  = flag.Int("sim.workers", 16, "driver: parallel workers")
	flagScratch  = flag.String("sim.scratch", "", "driver: scratch dir")
	flagEvidence = flag.String("sim.evidence", "", "driver: evidence file")
	flagKnown    = flag.String("sim.known", "/verif/known_findings.json", "driver: known findings file")
	flagReplays  = flag.String("sim.replays", "/verif/replays", "driver: directory for replay files")
	flagBudget   = flag.Duration("sim.budget", 0, "driver: wall budget for exploration")
	flagChunk    = flag.Int("sim.chunk", 25, "driver: runs per worker process")
	flagAlso     = flag.String("sim.also", "", "driver (development): also report violations of these properties")
	flagBase     = flag.Uint64("sim.base", 0, "driver (development): first run seed")
	flagJob      = flag.String("sim.job", "", "worker: job file (JSON)")
	flagOut      = flag.String("sim.out", "", "worker: output file (JSON lines)")
	flagReplay   = flag.String("sim.replay", "", "replay file")
	flagLog      = flag.Bool("sim.log", false, "include the event log in records")
)

// Job is what the driver hands a worker process.
type Job struct {
	Property string   `json:"property"`
	Tier     string   `json:"tier"`
	Seeds    []uint64 `json:"seeds,omitempty"`
	Plans    []*Plan  `json:"plans,omitempty"`
	WantLog  bool     `json:"want_log,omitempty"`
	WantPlan bool     `json:"want_plan,omitempty"`
}

func TestWorker(t *testing.T) {
	if *flagJob == "" {
		t.Skip("no job")
	}
	raw, err := os.ReadFile(*flagJob)
	if err != nil {
		t.Fatal(err)
	}
	var job Job
	if err := json.Unmarshal(raw, &job); err != nil {
		t.Fatal(err)
	}
	out := os.Stdout
	if *flagOut != "" {
		f, err := os.Create(*flagOut)
		if err != nil {
			t.Fatal(err)
		}
		defer f.Close()
		out = f
	}
	bw := bufio.NewWriter(out)
	defer bw.Flush()
	enc := json.NewEncoder(bw)
	emit := func(rec *Record, p *Plan) {
		if len(rec.Violations) > 0 || rec.Infra != "" || job.WantPlan {
			rec.Plan = p
		}
		enc.Encode(rec)
		bw.Flush()
	}
	// real-time watchdog, outside any bubble: a run that takes this long is stuck for real
	var curSeed atomic.Uint64
	var beat atomic.Int64
	beat.Store(time.Now().UnixNano())
	limit := 5 * time.Minute // generous: on an overloaded machine an honest run can take a minute of real time
	if v := os.Getenv("SIM_RUN_WALL_LIMIT"); v != "" {
		if d, err := time.ParseDuration(v); err == nil {
			limit = d
		}
	}
	go func() {
		for {
			time.Sleep(500 * time.Millisecond)
			if time.Since(time.Unix(0, beat.Load())) > limit {
				enc.Encode(&Record{Seed: curSeed.Load(), Property: job.Property, Infra: "run exceeded the real-time watchdog of " + limit.String()})
				bw.Flush()
				out.Sync()
				os.Exit(3)
			}
		}
	}()
	rl := &raceLogReader{}
	for _, kv := range strings.Fields(os.Getenv("GORACE")) {
		if strings.HasPrefix(kv, "log_path=") {
			rl.path = fmt.Sprintf("%s.%d", strings.TrimPrefix(kv, "log_path="), os.Getpid())
		}
	}
	for _, seed := range job.Seeds {
		curSeed.Store(seed)
		beat.Store(time.Now().UnixNano())
		p := GeneratePlan(job.Property, job.Tier, seed)
		if p == nil {
			emit(&Record{Seed: seed, Property: job.Property, Infra: "no generator for " + job.Property}, nil)
			continue
		}
		rec := &Record{Seed: seed, Property: job.Property, Infra: "run did not produce a record (subtest aborted)"}
		t.Run(fmt.Sprintf("seed%d", seed), func(t *testing.T) { RunPlanInto(t, p, job.WantLog || *flagLog, rec) })
		addRaces(rec, rl.next())
		emit(rec, p)
	}
	for _, p := range job.Plans {
		curSeed.Store(p.Seed)
		beat.Store(time.Now().UnixNano())
		rec := &Record{Seed: p.Seed, Property: job.Property, Infra: "run did not produce a record (subtest aborted)"}
		t.Run(fmt.Sprintf("plan%d", p.Seed), func(t *testing.T) { RunPlanInto(t, p, job.WantLog || *flagLog, rec) })
		addRaces(rec, rl.next())
		emit(rec, p)
	}
}

func TestMain(m *testing.M) {
	flag.Parse()
	if *flagDrive != "" {
		bin, _ := os.Executable()
		o := &DriveOpts{Property: *flagDrive, Tier: *flagTier, Seed: *flagSeed, Runs: *flagRuns, Workers: *flagWorkers, Scratch: *flagScratch,
			Binary: bin, Evidence: *flagEvidence, Known: *flagKnown, Replays: *flagReplays, Also: *flagAlso, Base: *flagBase, Budget: *flagBudget, ChunkSize: *flagChunk, JobTimeout: 15 * time.Minute}
		os.Exit(Drive(o))
	}
	if *flagReplay != "" {
		os.Exit(replayMain(*flagReplay))
	}
	os.Exit(m.Run())
}

// replayMain re-runs a replay file in a fresh worker process and reports whether the
// violation reproduces.
func replayMain(path string) int {
	raw, err := os.ReadFile(path)
	if err != nil {
		fmt.Println("INFRA:", err)
		return 2
	}
	var rf ReplayFile
	if err := json.Unmarshal(raw, &rf); err != nil || rf.Plan == nil {
		fmt.Println("INFRA: not a replay file:", path)
		return 2
	}
	bin, _ := os.Executable()
	scratch := *flagScratch
	if scratch == "" {
		scratch, _ = os.MkdirTemp("", "simreplay")
		defer os.RemoveAll(scratch)
	}
	o := &DriveOpts{Property: rf.Property, Workers: 2, Scratch: scratch, Binary: bin, JobTimeout: 15 * time.Minute}
	recs := o.runPlans([]*Plan{rf.Plan}, *flagLog)
	r := recs[0]
	if r.Infra != "" {
		fmt.Println("INFRA:", r.Infra)
		return 2
	}
	if *flagLog {
		for _, l := range r.Log {
			fmt.Println(l)
		}
	}
	for _, v := range r.Violations {
		fmt.Printf("observed: %s — %s\n", v.Signature(), v.Detail)
	}
	if hasSig(r, rf.Signature) {
		same := "same trace hash"
		if r.Trace != rf.Trace {
			same = "trace hash differs: " + r.Trace + " vs recorded " + rf.Trace
		}
		fmt.Printf("VIOLATION property=%s replay=%s\n  reproduced: %s (%s)\n", rf.Property, path, rf.Signature, same)
		return 1
	}
	fmt.Printf("replay of %s: signature %s does not occur on this tree\n", path, rf.Signature)
	return 0
}
