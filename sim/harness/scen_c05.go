package harness

import (
	"fmt"
	"math/big"
	"verif.local/simrt"

	"github.com/bartossh/Computantis/src/spice"
)

// C05 (API clause). Supply, Drain and Transfer are pure functions: this part is input and
// sequence generation, not simulation; it rides on the same driver and is labelled so in
// the evidence. The history clause of C05 is judged by the ledger scenario.

var c05Cur = []uint64{0, 1, 2, 1 << 63, ^uint64(0) - e18u, ^uint64(0) - 1, ^uint64(0)}
var c05Sup = []uint64{0, 1, e18u - 1, e18u, e18u + 1, ^uint64(0) - e18u, ^uint64(0)}

func c05Pairs() []spice.Melange {
	var out []spice.Melange
	for _, c := range c05Cur {
		for _, s := range c05Sup {
			out = append(out, spice.Melange{Currency: c, SupplementaryCurrency: s})
		}
	}
	return out
}

func melStr(m spice.Melange) string {
	return fmt.Sprintf("{%d,%d}", m.Currency, m.SupplementaryCurrency)
}

type c05op struct {
	Op     string `json:"op"`
	A      string `json:"a"`
	B      string `json:"b,omitempty"`
	Amount string `json:"amount"`
}

// checkSupply judges one Supply call against unbounded integers.
func (w *World) checkSupply(m, amount spice.Melange) {
	if !canonical(m) {
		return
	}
	before := m
	err := m.Supply(amount)
	want := new(big.Int).Add(melVal(before), melVal(amount))
	w.probe("c05-api-ops")
	if err != nil {
		if m != before {
			w.violate("C05", "atomic", "failed-supply-changed-receiver", -1, "%s.Supply(%s) -> %s err %v", melStr(before), melStr(amount), melStr(m), err)
		}
		if canonical(amount) && want.Cmp(maxMel) < 0 {
			w.violate("C05", "refused", "supply-refused-representable-sum", -1, "%s.Supply(%s): %v", melStr(before), melStr(amount), err)
		}
		return
	}
	if melVal(m).Cmp(want) != 0 {
		cause := "supply-wrong-sum"
		if canonical(amount) {
			cause = "supply-wrong-sum-canonical-amount"
		}
		w.violate("C05", "exact", cause, -1, "%s.Supply(%s) = %s, exact %s", melStr(before), melStr(amount), melStr(m), want)
	} else if !canonical(m) {
		w.violate("C05", "canonical", "supply-left-non-canonical-result", -1, "%s.Supply(%s) = %s", melStr(before), melStr(amount), melStr(m))
	}
	if !canonical(amount) {
		w.violate("C05", "canonical", "supply-accepted-non-canonical-amount", -1, "%s.Supply(%s) = %s", melStr(before), melStr(amount), melStr(m))
	}
}

// checkNew judges the constructor: it may normalise (one carry) or hand the pair on as it is (non canonical
// amounts are refused by every operation and by the ledger), but a canonical result has to be worth exactly
// currency*10^18 + supplementary: a constructor that wraps around destroys value before any check can see it.
func (w *World) checkNew(c, s uint64) {
	got := spice.New(c, s)
	w.probe("c05-api-ops")
	want := melVal(spice.Melange{Currency: c, SupplementaryCurrency: s})
	if canonical(got) && melVal(got).Cmp(want) != 0 {
		w.violate("C05", "exact", "constructor-wrapped-around", -1, "New(%d,%d) = %s, exact %s", c, s, melStr(got), want)
	}
}

// checkTransfer judges one Transfer (Drain is Transfer with the receiver as source).
func (w *World) checkTransfer(amount, from, to spice.Melange, viaDrain bool) {
	if !canonical(from) || !canonical(to) {
		return
	}
	f0, t0 := from, to
	var err error
	name := "transfer"
	if viaDrain {
		name = "drain"
		err = from.Drain(amount, &to)
	} else {
		err = spice.Transfer(amount, &from, &to)
	}
	w.probe("c05-api-ops")
	av := melVal(amount)
	if err != nil {
		if from != f0 || to != t0 {
			w.violate("C05", "atomic", "failed-"+name+"-changed-a-side", -1, "amount %s from %s to %s -> from %s to %s err %v", melStr(amount), melStr(f0), melStr(t0), melStr(from), melStr(to), err)
		}
		if canonical(amount) && av.Cmp(melVal(f0)) <= 0 && new(big.Int).Add(melVal(t0), av).Cmp(maxMel) < 0 {
			w.violate("C05", "refused", name+"-refused-legal-move", -1, "amount %s from %s to %s: %v", melStr(amount), melStr(f0), melStr(t0), err)
		}
		return
	}
	wf := new(big.Int).Sub(melVal(f0), av)
	wt := new(big.Int).Add(melVal(t0), av)
	switch {
	case wf.Sign() < 0:
		w.violate("C05", "exact", name+"-moved-more-than-source-holds", -1, "amount %s from %s to %s -> from %s to %s", melStr(amount), melStr(f0), melStr(t0), melStr(from), melStr(to))
	case melVal(from).Cmp(wf) != 0 || melVal(to).Cmp(wt) != 0:
		cause := name + "-wrong-result"
		if canonical(amount) {
			cause = name + "-wrong-result-canonical-amount"
		}
		w.violate("C05", "exact", cause, -1, "amount %s from %s to %s -> from %s to %s, exact from %s to %s", melStr(amount), melStr(f0), melStr(t0), melStr(from), melStr(to), wf, wt)
	case !canonical(from) || !canonical(to):
		w.violate("C05", "canonical", name+"-left-non-canonical-result", -1, "amount %s from %s to %s -> from %s to %s", melStr(amount), melStr(f0), melStr(t0), melStr(from), melStr(to))
	}
	if !canonical(amount) {
		w.violate("C05", "canonical", name+"-accepted-non-canonical-amount", -1, "amount %s from %s to %s", melStr(amount), melStr(f0), melStr(t0))
	}
}

// bankScenario: (1) the full product of boundary values for single operations,
// (2) seeded sequences over a bank of purses compared with a big-integer bank.
func bankScenario(w *World, p *Plan, rec *Record) {
	r := newPRNG(p.Seed ^ 0xBA4C)
	simrt.Logf("case", "bank seed %d nodes %d", p.Seed, p.Cfg.Nodes)
	pairs := c05Pairs()
	if p.Cfg.Nodes == 0 { // slice of the exhaustive product chosen by the seed: amount index fixed per run
		ai := int(p.Seed % uint64(len(pairs)))
		amt := pairs[ai]
		for _, a := range pairs {
			w.checkNew(a.Currency, a.SupplementaryCurrency)
			w.checkSupply(a, amt)
			for _, b := range pairs {
				w.checkTransfer(amt, a, b, false)
				w.checkTransfer(amt, a, b, true)
			}
		}
		rec.Sample = map[string]any{"kind": "boundary product slice", "amount": melStr(amt), "purses": len(pairs), "triples": len(pairs) * len(pairs)}
	}
	// sequences
	n := 2 + r.Intn(5)
	purses := make([]spice.Melange, n)
	ref := make([]*big.Int, n)
	total := new(big.Int)
	for i := range purses {
		c := c05Cur[r.Intn(len(c05Cur))]
		if r.Chance(0.5) {
			c = r.Uint64() >> uint(r.Intn(64))
		}
		s := r.Uint64() % e18u
		if r.Chance(0.3) {
			s = []uint64{0, 1, e18u - 1}[r.Intn(3)]
		}
		purses[i] = spice.Melange{Currency: c, SupplementaryCurrency: s}
		ref[i] = melVal(purses[i])
		total.Add(total, ref[i])
	}
	for k := 0; k < 8; k++ {
		c, s := c05Cur[r.Intn(len(c05Cur))], c05Sup[r.Intn(len(c05Sup))]
		if r.Chance(0.5) {
			c = ^uint64(0) - uint64(r.Intn(3))
		}
		if r.Chance(0.5) {
			s = e18u - 2 + uint64(r.Intn(5))
		}
		w.checkNew(c, s)
	}
	var ops []c05op
	for k := 0; k < 40; k++ {
		a, b := r.Intn(n), r.Intn(n)
		if a == b {
			b = (a + 1) % n
		}
		var amt spice.Melange
		switch r.Intn(5) {
		case 0:
			amt = pairs[r.Intn(len(pairs))]
		case 1:
			amt = purses[a]
		case 2:
			amt = spice.Melange{Currency: purses[a].Currency, SupplementaryCurrency: (purses[a].SupplementaryCurrency + 1) % e18u}
		default:
			amt = spice.Melange{Currency: r.Uint64() >> uint(r.Intn(64)), SupplementaryCurrency: r.Uint64() % e18u}
		}
		fa, fb := purses[a], purses[b]
		err := spice.Transfer(amt, &purses[a], &purses[b])
		w.probe("c05-bank-ops")
		if len(ops) < 12 {
			ops = append(ops, c05op{Op: "transfer", A: melStr(fa), B: melStr(fb), Amount: melStr(amt)})
		}
		av := melVal(amt)
		if err == nil {
			ref[a] = new(big.Int).Sub(ref[a], av)
			ref[b] = new(big.Int).Add(ref[b], av)
			if ref[a].Sign() < 0 || melVal(purses[a]).Cmp(ref[a]) != 0 || melVal(purses[b]).Cmp(ref[b]) != 0 || !canonical(purses[a]) || !canonical(purses[b]) {
				w.violate("C05", "bank", "sequence-diverged-from-integer-bank", -1, "op %d: transfer %s from %s to %s -> %s, %s; exact %s, %s", k, melStr(amt), melStr(fa), melStr(fb), melStr(purses[a]), melStr(purses[b]), ref[a], ref[b])
				break
			}
		} else if purses[a] != fa || purses[b] != fb {
			w.violate("C05", "bank", "failed-transfer-changed-a-purse", -1, "op %d: transfer %s from %s to %s", k, melStr(amt), melStr(fa), melStr(fb))
			break
		}
		sum := new(big.Int)
		for i := range purses {
			sum.Add(sum, melVal(purses[i]))
		}
		if sum.Cmp(total) != 0 {
			w.violate("C05", "bank", "total-not-conserved", -1, "op %d: total %s -> %s", k, total, sum)
			break
		}
	}
	if rec.Sample == nil {
		rec.Sample = map[string]any{"kind": "purse bank sequence", "purses": n, "first_ops": ops}
	}
	rec.Nontrivial = true
}

func init() {
	scenarios["c05bank"] = bankScenario
}
