package harness

// Config holds the per-run knobs (all drawn from the run seed by the plan generator).
type Config struct {
	Nodes             int      `json:"nodes"`
	Wallets           int      `json:"wallets"`
	SupplyCur         uint64   `json:"supply_cur"`
	SupplySup         uint64   `json:"supply_sup"`
	Topology          [][2]int `json:"topology,omitempty"` // undirected links; empty = complete graph via discovery
	PreemptP          float64  `json:"preempt_p"`          // 0 = event mode
	Spread            int      `json:"spread"`
	LatMinMS          int      `json:"lat_min_ms"`
	LatJitMS          int      `json:"lat_jit_ms"`
	DropP             float64  `json:"drop_p"`
	DupP              float64  `json:"dup_p"`
	SpikeP            float64  `json:"spike_p"`
	CtxCancelOnReturn bool     `json:"ctx_cancel_on_return"`
	TruncateDiff      uint64   `json:"truncate_diff"`        // 0 = source value
	TruncateAt        uint64   `json:"truncate_at"`          // accountant.Config.Truncate
	SignalBuf         uint64   `json:"signal_buf,omitempty"` // knob initialThroughput (truncate-signal channel capacity, initial throughput); 0 = source value
	ChanCap           int      `json:"chan_cap,omitempty"`   // caps the large buffered channels of the code (sync loader 1000, DAG stream 100); 0 = source values
	MaxArraySize      uint64   `json:"max_array_size"`
	MaxRepeats        uint64   `json:"max_repeats"`
	DataSize          int      `json:"data_size"`
	Trusted           []int    `json:"trusted,omitempty"` // node indexes whose address every node trusts
	KeepLogs          bool     `json:"keep_logs,omitempty"`
	StreamBuf         int      `json:"stream_buf"`
	SettleMS          int      `json:"settle_ms"`
	Direct            bool     `json:"direct"` // clients call the ledger API directly instead of the notary API
	StreamFaultKind   string   `json:"stream_fault,omitempty"`
	K                 int      `json:"k,omitempty"`        // scenario class selector
	OpSkip            []int    `json:"op_skip,omitempty"`  // scenario-generated operations to leave out (set by the minimiser)
	OpLimit           int      `json:"op_limit,omitempty"` // stop after this many scenario-generated operations (0 = all)
}
