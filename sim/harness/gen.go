package harness

import (
	"math/big"
	"os"
	"strconv"
)

// generators maps a property id to its plan generator (swarm style: every knob is drawn
// from the run seed).
var generators = map[string]func(r *prng, seed uint64, tier string) *Plan{}

// GeneratePlan derives the whole run from one integer.
func GeneratePlan(property, tier string, seed uint64) *Plan {
	g := generators[property]
	if g == nil {
		return nil
	}
	r := newPRNG(seed ^ hashStr(property))
	p := g(r, seed, tier)
	p.Seed = seed
	p.Property = property
	return p
}

func hashStr(s string) uint64 {
	var h uint64 = 1469598103934665603
	for i := 0; i < len(s); i++ {
		h ^= uint64(s[i])
		h *= 1099511628211
	}
	return h
}

const e18u = uint64(1_000_000_000_000_000_000)

// boundary values of the two-part currency (C05)
var boundaryVals = []uint64{0, 1, 2, e18u - 2, e18u - 1, e18u, e18u + 1, 1 << 63, (1 << 63) - 1, (1 << 63) + 1,
	^uint64(0) - e18u, ^uint64(0) - e18u + 1, ^uint64(0) - e18u - 1, ^uint64(0) - 1, ^uint64(0)}

// connected graphs on up to 4 labelled nodes are enumerated by edge mask.
func connectedTopology(r *prng, n int) [][2]int {
	if n <= 1 {
		return nil
	}
	var all [][2]int
	for a := 0; a < n; a++ {
		for b := a + 1; b < n; b++ {
			all = append(all, [2]int{a, b})
		}
	}
	for try := 0; try < 200; try++ {
		mask := r.Intn(1 << len(all))
		var links [][2]int
		for i, l := range all {
			if mask&(1<<i) != 0 {
				links = append(links, l)
			}
		}
		if isConnected(n, links) {
			return links
		}
	}
	return all
}

func isConnected(n int, links [][2]int) bool {
	seen := make([]bool, n)
	seen[0] = true
	for changed := true; changed; {
		changed = false
		for _, l := range links {
			if seen[l[0]] != seen[l[1]] {
				seen[l[0]], seen[l[1]] = true, true
				changed = true
			}
		}
	}
	for _, s := range seen {
		if !s {
			return false
		}
	}
	return true
}

// model is the generator's rough idea of balances (assuming every proposal succeeds);
// it only steers amounts towards interesting values, no oracle depends on it.
type model struct {
	bal []*big.Int
}

func newModel(wallets int, genesisReceiver int, supply *big.Int) *model {
	m := &model{bal: make([]*big.Int, wallets)}
	for i := range m.bal {
		m.bal[i] = new(big.Int)
	}
	m.bal[genesisReceiver] = new(big.Int).Set(supply)
	return m
}

func splitVal(v *big.Int) (cur, sup uint64) {
	if v.Sign() <= 0 {
		return 0, 0
	}
	q, rem := new(big.Int).QuoRem(v, e18, new(big.Int))
	if !q.IsUint64() {
		return ^uint64(0), rem.Uint64()
	}
	return q.Uint64(), rem.Uint64()
}

type ledgerBias struct {
	nodesMax     int
	overdrawP    float64
	boundaryP    float64
	dupP         float64
	truncP       float64
	probeP       float64
	injectP      float64
	forbiddenP   float64
	conflictP    float64
	partitionP   float64
	crashP       float64
	contractP    float64
	fine         bool
	stepsMin     int
	stepsMax     int
	trustedP     float64
	faultyNetP   float64
	hugeSupplyP  float64
	noWaitP      float64
	truncDiffMax int
}

func genLedgerWith(b ledgerBias) func(r *prng, seed uint64, tier string) *Plan {
	return func(r *prng, seed uint64, tier string) *Plan {
		cfg := Config{Nodes: 1 + r.Intn(b.nodesMax), Wallets: 2 + r.Intn(4), LatMinMS: 1 + r.Intn(20), LatJitMS: r.Intn(60),
			DataSize: 2048, StreamBuf: 1 + r.Intn(8), SettleMS: 3000, Spread: 1 + r.Intn(4)}
		cfg.Direct = r.Chance(0.5)
		cfg.SupplyCur = uint64(20 + r.Intn(2000))
		if r.Chance(0.3) {
			cfg.SupplySup = r.Uint64() % e18u
		}
		if r.Chance(b.hugeSupplyP) {
			cfg.SupplyCur = boundaryVals[7+r.Intn(len(boundaryVals)-7)]
			cfg.SupplySup = []uint64{0, 1, e18u - 1}[r.Intn(3)]
		}
		if cfg.Nodes > 1 && r.Chance(b.faultyNetP) {
			cfg.DropP = []float64{0, 0.05, 0.15}[r.Intn(3)]
			cfg.DupP = []float64{0, 0.1, 0.3}[r.Intn(3)]
			cfg.SpikeP = []float64{0, 0.05, 0.2}[r.Intn(3)]
		}
		if cfg.Nodes > 2 && r.Chance(0.4) {
			cfg.Topology = connectedTopology(r, cfg.Nodes)
		}
		if r.Chance(b.truncP) || b.truncP >= 1 {
			max := b.truncDiffMax
			if max < 3 {
				max = 12
			}
			cfg.TruncateDiff = uint64(2 + r.Intn(max-1))
		}
		if cfg.TruncateDiff > 0 && r.Chance(truncNatP) {
			// natural truncation through the weight signal (the real runTruncate loop)
			cfg.TruncateAt = cfg.TruncateDiff*2 + uint64(r.Intn(6))
		}
		// half of those runs truncate only the way a deployment does (no synchronous trigger in between)
		naturalOnly := cfg.TruncateAt > 0 && r.Chance(truncNatOnlyP)
		longRun := false
		if naturalOnly && r.Chance(0.6) {
			// shallow cut and the lowest threshold the code accepts: two or three truncations fit into one run
			cfg.TruncateDiff = uint64(2 + r.Intn(2))
			cfg.TruncateAt = 2*cfg.TruncateDiff + uint64(r.Intn(2))
			longRun = true
		}
		if cfg.TruncateAt > 0 && r.Chance(0.4) {
			// a short truncate-signal channel: admissions signal the truncation loop on every vertex, and the
			// shipped capacity (50) is never reached by a run of this size
			cfg.SignalBuf = uint64(1 + r.Intn(3))
		}
		if cfg.Nodes > 1 && r.Chance(0.3) {
			cfg.CtxCancelOnReturn = true // request contexts as under grpc-go
		}
		if b.fine && r.Chance(0.7) {
			cfg.PreemptP = []float64{0.02, 0.1, 0.3, 0.5}[r.Intn(4)]
		}
		if r.Chance(b.trustedP) && cfg.Nodes > 0 {
			cfg.Trusted = []int{r.Intn(cfg.Nodes)}
		}
		p := &Plan{Scenario: "ledger", Cfg: cfg}
		supply := new(big.Int).Mul(new(big.Int).SetUint64(cfg.SupplyCur), e18)
		supply.Add(supply, new(big.Int).SetUint64(cfg.SupplySup))
		m := newModel(cfg.Wallets, 0, supply)
		nSteps := b.stepsMin + r.Intn(b.stepsMax-b.stepsMin+1)
		if tier == "thorough" && r.Chance(0.3) {
			nSteps *= 2
		}
		if longRun {
			nSteps *= 2
		}
		partitioned := false
		textP := 0.0
		if r.Chance(0.15) {
			textP = 0.15 // this run also sends spice to receivers that are not wallet addresses
		}
		var proposals []int
		for len(p.Steps) < nSteps {
			node := r.Intn(cfg.Nodes)
			x := r.Float()
			switch {
			case x < b.probeP:
				p.Steps = append(p.Steps, Step{Op: "probe", Node: node, DelayMS: r.Intn(100)})
				continue
			case x < b.probeP+b.truncP*0.25 && cfg.TruncateDiff > 0 && len(p.Steps) > int(cfg.TruncateDiff):
				op := "truncate"
				if naturalOnly {
					op = "probe"
				}
				p.Steps = append(p.Steps, Step{Op: op, Node: node, DelayMS: r.Intn(50)})
				continue
			case r.Chance(b.dupP) && len(proposals) > 0:
				p.Steps = append(p.Steps, Step{Op: "dup", Node: node, Ref: proposals[r.Intn(len(proposals))], DelayMS: r.Intn(200), NoWait: r.Chance(b.noWaitP)})
				continue
			case r.Chance(b.partitionP) && cfg.Nodes > 1:
				if partitioned {
					p.Steps = append(p.Steps, Step{Op: "heal", DelayMS: r.Intn(500)})
				} else {
					a := r.Intn(cfg.Nodes)
					var links [][2]int
					for o := 0; o < cfg.Nodes; o++ {
						if o != a {
							links = append(links, [2]int{a, o})
						}
					}
					p.Steps = append(p.Steps, Step{Op: "partition", Links: links})
				}
				partitioned = !partitioned
				continue
			case r.Chance(b.crashP) && cfg.Nodes > 1:
				v := 1 + r.Intn(cfg.Nodes-1)
				p.Steps = append(p.Steps, Step{Op: "crash", Node: v, DelayMS: r.Intn(100)})
				p.Steps = append(p.Steps, Step{Op: "restart", Node: v, Node2: r.Intn(cfg.Nodes), DelayMS: r.Intn(3000)})
				continue
			case r.Chance(b.forbiddenP * 0.2):
				p.Steps = append(p.Steps, Step{Op: "genesis", Node: node, Kind: []string{"again", "empty"}[r.Intn(2)], To: r.Intn(cfg.Wallets), DelayMS: r.Intn(100)})
				continue
			case r.Chance(b.forbiddenP):
				kind := []string{"self-sealed", "genesis-issuer", "empty", "orphan", "self-sealed-alias", "genesis-issuer-alias"}[r.Intn(6)]
				st := Step{Op: "inject", Node: node, Kind: kind, From: r.Intn(cfg.Wallets), To: r.Intn(cfg.Wallets), Cur: uint64(1 + r.Intn(5)), DelayMS: r.Intn(100)}
				if r.Chance(0.3) {
					st.K = 1 + r.Intn(cfg.Nodes)
				}
				if kind != "orphan" && r.Chance(0.3) {
					st.Via = "ahead" // the forbidden vertex overtakes its parent and comes back through the orphan retry
				}
				// the rules hold for every kind of transaction: transfers, contracts, contracts that also move spice
				switch r.Intn(3) {
				case 0:
					st.Data, st.Cur = 1+r.Intn(40), 0
				case 1:
					st.Data = 1 + r.Intn(40)
				}
				p.Steps = append(p.Steps, st)
				if r.Chance(0.5) {
					// the same rule through the proposal entry points
					ps := Step{Op: "propose", Node: node, From: -(r.Intn(cfg.Nodes) + 1), To: r.Intn(cfg.Wallets), Cur: uint64(r.Intn(3)), DelayMS: r.Intn(50), Via: []string{"notary", "ledger"}[r.Intn(2)]}
					if r.Chance(0.3) {
						ps.From, ps.Cur = r.Intn(cfg.Wallets), 0
					}
					p.Steps = append(p.Steps, ps)
				}
				continue
			}
			// a transfer
			from := r.Intn(cfg.Wallets)
			// prefer a wallet that has funds
			for t := 0; t < 4 && m.bal[from].Sign() == 0; t++ {
				from = r.Intn(cfg.Wallets)
			}
			to := r.Intn(cfg.Wallets)
			if r.Chance(0.9) {
				for to == from {
					to = r.Intn(cfg.Wallets)
				}
			}
			var amt *big.Int
			y := r.Float()
			switch {
			case y < b.overdrawP*0.4:
				amt = new(big.Int).Add(m.bal[from], big.NewInt(1)) // one smallest unit too much
			case y < b.overdrawP*0.7:
				amt = new(big.Int).Add(m.bal[from], new(big.Int).Mul(big.NewInt(int64(1+r.Intn(9))), e18))
			case y < b.overdrawP:
				amt = new(big.Int).Set(m.bal[from]) // exactly everything
			case y < b.overdrawP+b.boundaryP:
				c := boundaryVals[r.Intn(len(boundaryVals))]
				s := boundaryVals[r.Intn(len(boundaryVals))]
				p.Steps = append(p.Steps, Step{Op: pick(r, b.injectP, "inject", "propose"), Kind: "valid", Node: node, From: from, To: to, Cur: c, Sup: s, DelayMS: r.Intn(150)})
				continue
			default:
				if m.bal[from].Sign() > 0 {
					frac := int64(1 + r.Intn(6))
					amt = new(big.Int).Quo(m.bal[from], big.NewInt(frac))
					if r.Chance(0.5) {
						amt.Quo(amt, e18).Mul(amt, e18) // whole units
					}
					if amt.Sign() == 0 {
						amt = big.NewInt(int64(1 + r.Intn(1000)))
					}
				} else {
					amt = big.NewInt(int64(1 + r.Intn(1000)))
				}
			}
			cur, sup := splitVal(amt)
			st := Step{Op: "propose", Node: node, From: from, To: to, Cur: cur, Sup: sup, DelayMS: r.Intn(300), NoWait: r.Chance(b.noWaitP)}
			if r.Chance(b.injectP) {
				st.Op, st.Kind = "inject", "valid"
				if r.Chance(forgedWeightP) {
					st.Kind = "forged-weight" // everything valid but the weight the sealing node declares
				}
				if r.Chance(0.3) {
					st.K = 1 + r.Intn(cfg.Nodes)
				}
				if r.Chance(0.35) {
					st.Via = []string{"old-left", "old-right"}[r.Intn(2)]
				}
			}
			if r.Chance(b.contractP) {
				st.Data = 1 + r.Intn(64)
				if r.Chance(0.5) {
					st.Cur, st.Sup = 0, 0
				}
				st.Via = "ledger"
			}
			if r.Chance(0.25) {
				st.Via = []string{"notary", "ledger"}[r.Intn(2)]
			}
			if st.Op == "propose" && st.Data == 0 && r.Chance(textP) {
				// the receiver of a transfer is free text for the ledger and for the notary's Propose
				st.ToText = []string{"b32", "b32", "empty", "lastvertex", "vhash", "huge"}[r.Intn(6)]
				if st.ToText == "vhash" {
					st.Via = "ledger" // raw hash bytes are not valid UTF-8: only the ledger API takes them
				}
			}
			if amt.Cmp(m.bal[from]) <= 0 {
				m.bal[from].Sub(m.bal[from], amt)
				if st.ToText == "" {
					m.bal[to].Add(m.bal[to], amt)
				}
			}
			if st.Op == "propose" {
				proposals = append(proposals, len(p.Steps))
			}
			p.Steps = append(p.Steps, st)
			if r.Chance(b.conflictP) && cfg.Nodes > 1 && st.Op == "propose" {
				// the same funds spent again through another node within one latency window
				other := (node + 1 + r.Intn(cfg.Nodes-1)) % cfg.Nodes
				to2 := (to + 1) % cfg.Wallets
				if to2 == from {
					to2 = (to2 + 1) % cfg.Wallets
				}
				p.Steps[len(p.Steps)-1].NoWait = true
				p.Steps = append(p.Steps, Step{Op: "propose", Node: other, From: from, To: to2, Cur: cur, Sup: sup, DelayMS: 0})
				p.Steps = append(p.Steps, Step{Op: "sleep", K: 200 + r.Intn(400)})
			}
		}
		if partitioned {
			p.Steps = append(p.Steps, Step{Op: "heal"})
		}
		// something must build on the last tips so that they become confirmed
		for k := 0; k < 2; k++ {
			p.Steps = append(p.Steps, Step{Op: "propose", Node: r.Intn(cfg.Nodes), From: 0, To: 1 % cfg.Wallets, Sup: uint64(1 + r.Intn(1000)), DelayMS: 200 + r.Intn(300)})
		}
		return p
	}
}

func pick(r *prng, p float64, a, b string) string {
	if r.Chance(p) {
		return a
	}
	return b
}

func init() {
	base := ledgerBias{nodesMax: 4, overdrawP: 0.25, boundaryP: 0.05, dupP: 0.08, truncP: 0.3, probeP: 0.08, injectP: 0.15, forbiddenP: 0.05,
		conflictP: 0.05, partitionP: 0.03, crashP: 0.02, contractP: 0.1, stepsMin: 6, stepsMax: 28, trustedP: 0.1, faultyNetP: 0.5, hugeSupplyP: 0.03, noWaitP: 0.1}
	c01 := base
	c01.overdrawP, c01.injectP, c01.truncP = 0.4, 0.25, 0.4
	generators["C01"] = genLedgerWith(c01)
	c02 := base
	c02.nodesMax, c02.conflictP, c02.partitionP, c02.trustedP, c02.overdrawP = 4, 0.3, 0.08, 0, 0.3
	generators["C02"] = genLedgerWith(c02)
	c03 := base
	c03.dupP, c03.noWaitP, c03.fine, c03.truncP = 0.3, 0.4, true, 0.4
	generators["C03"] = genLedgerWith(c03)
	c05 := base
	c05.boundaryP, c05.hugeSupplyP, c05.injectP = 0.35, 0.4, 0.3
	c05gen := genLedgerWith(c05)
	generators["C05"] = func(r *prng, seed uint64, tier string) *Plan {
		// one run in three is the API clause (purse bank / boundary product slice)
		switch seed % 3 {
		case 0:
			return &Plan{Scenario: "c05bank", Cfg: Config{Nodes: 0}}
		case 1:
			if seed%2 == 0 {
				return &Plan{Scenario: "c05bank", Cfg: Config{Nodes: -1}}
			}
		}
		return c05gen(r, seed, tier)
	}
	c06 := base
	c06.probeP, c06.truncP = 0.3, 0.5
	generators["C06"] = genLedgerWith(c06)
	c07 := base
	c07.truncP, c07.stepsMin, c07.stepsMax, c07.probeP, c07.truncDiffMax = 1, 10, 36, 0.12, 10
	generators["C07"] = genLedgerWith(c07)
	c09 := base
	c09.fine = true
	generators["C09"] = genLedgerWith(c09)
	c08 := base
	c08.fine, c08.truncP, c08.hugeSupplyP, c08.crashP, c08.noWaitP, c08.boundaryP = true, 0.6, 0.15, 0.08, 0.3, 0.1
	generators["C08"] = genLedgerWith(c08)
	c10 := base
	c10.forbiddenP, c10.crashP = 0.3, 0.05
	generators["C10"] = genLedgerWith(c10)
}

// share of truncating runs that use the weight-triggered truncation loop, and of those the share without any synchronous trigger
// share of injected valid vertices whose sealing node declares an absurd weight
var forgedWeightP = envFloat("SIM_FORGED_WEIGHT_P", 0.05)

var truncNatP, truncNatOnlyP = envFloat("SIM_TRUNC_NAT_P", 0.35), envFloat("SIM_TRUNC_NATONLY_P", 0.5)

func envFloat(k string, d float64) float64 {
	if v := os.Getenv(k); v != "" {
		if f, err := strconv.ParseFloat(v, 64); err == nil {
			return f
		}
	}
	return d
}
