package harness

import (
	"context"
	"google.golang.org/protobuf/proto"
	"verif.local/simrt"

	pb "github.com/bartossh/Computantis/src/protobufcompiled"
)

// installByzantineRelay is filled in by the C12 scenario (see scen_c12 below).
func (w *World) installByzantineRelay(r *prng) {
	byz := map[int]bool{}
	// one relay that is not the only connection of anybody would be ideal; any node may be chosen,
	// the delivery oracle only speaks about nodes with an honest path (see c12HonestReach)
	b := r.Intn(len(w.Nodes))
	byz[b] = true
	w.Byz = byz
	mode := r.Intn(8)
	simrt.Logf("case", "byzantine relay n%d class %d", b, mode)
	honestSigs := map[string]*pb.Gossiper{} // address -> a valid entry lifted from some earlier item
	w.Net.Mutate = func(from, to int, kind string, msg proto.Message) proto.Message {
		var gs *[]*pb.Gossiper
		var item []byte
		switch m := msg.(type) {
		case *pb.VrxMsgGossip:
			gs = &m.Gossipers
			if m.Vertex != nil {
				item = m.Vertex.Hash
			}
		case *pb.TrxMsgGossip:
			gs = &m.Gossipers
			if m.Trx != nil {
				item = m.Trx.Hash
			}
		default:
			return nil
		}
		// honest traffic teaches the adversary valid signatures on other items
		if !byz[from] {
			for _, g := range *gs {
				if g != nil {
					honestSigs[g.Address] = g
				}
			}
			return nil
		}
		w.fault("byz-relay:" + []string{"garbage", "honest-address-bad-signature", "lifted-signature", "own-signature-under-honest-address", "lists-target", "lists-all-neighbours", "duplicates", "worthless-message-with-item-hash"}[mode])
		adv := w.Nodes[from].W
		switch mode {
		case 0:
			*gs = append(*gs, &pb.Gossiper{Address: "garbage", Digest: w.rng.Bytes(32), Signature: w.rng.Bytes(64)})
		case 1:
			for _, n := range w.Nodes {
				if !byz[n.Idx] {
					*gs = append(*gs, &pb.Gossiper{Address: n.Addr, Digest: w.rng.Bytes(32), Signature: nil})
				}
			}
		case 2:
			var as []string
			for a := range honestSigs {
				as = append(as, a)
			}
			sortStrings(as)
			for _, a := range as {
				cp := *honestSigs[a]
				*gs = append(*gs, &cp)
			}
		case 3:
			if len(item) == 32 {
				for _, n := range w.Nodes {
					if !byz[n.Idx] {
						g := signedGossiper(adv, toHash(item))
						g.Address = n.Addr
						*gs = append(*gs, g)
					}
				}
			}
		case 4:
			if len(item) == 32 {
				g := signedGossiper(adv, toHash(item))
				g.Address = w.Nodes[to].Addr
				*gs = append(*gs, g)
			}
		case 5:
			var as []string
			for addr := range w.Nodes[to].Goss.Peers() {
				as = append(as, addr)
			}
			sortStrings(as)
			for _, addr := range as {
				*gs = append(*gs, &pb.Gossiper{Address: addr, Digest: w.rng.Bytes(32), Signature: w.rng.Bytes(64)})
			}
		case 7:
			// before it forwards the item the relay sends the target something worthless that names the item's
			// hash (and lists the target for good measure): the target refuses that - and must still take the
			// item itself, from the relay and from everybody else
			if len(item) != 32 {
				return msg
			}
			if len(*gs) == 1 && (*gs)[0] != nil && (*gs)[0].Address == w.Nodes[from].Addr {
				return msg // the relay's own item: an origin that sabotages its own item proves nothing
			}
			zero := make([]byte, 32)
			lst := []*pb.Gossiper{{Address: w.Nodes[to].Addr, Digest: zero, Signature: zero}}
			tgt := w.Nodes[to]
			if !tgt.Alive {
				return msg
			}
			if _, isTrx := msg.(*pb.TrxMsgGossip); isTrx {
				w.asNode(tgt, func() {
					tgt.Goss.Server().GossipTrx(context.Background(), &pb.TrxMsgGossip{Trx: &pb.Transaction{Hash: item, Spice: &pb.Spice{}}, Gossipers: lst})
				})
			} else {
				w.asNode(tgt, func() {
					tgt.Goss.Server().GossipVrx(context.Background(), &pb.VrxMsgGossip{Vertex: &pb.Vertex{Hash: item, LeftParentHash: zero, RightParentHash: zero,
						Transaction: &pb.Transaction{Hash: zero, Spice: &pb.Spice{}}}, Gossipers: lst})
				})
			}
			return msg
		default:
			*gs = append(*gs, *gs...)
		}
		return msg
	}
}
