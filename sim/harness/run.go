package harness

import (
	"bytes"
	"context"
	"crypto/sha256"
	"encoding/hex"
	"errors"
	"fmt"
	"math/big"
	"os"
	"runtime/debug"
	"sort"
	"strings"
	"time"

	"github.com/bartossh/Computantis/src/accountant"
	"github.com/bartossh/Computantis/src/spice"
	"github.com/bartossh/Computantis/src/transaction"
	"verif.local/simrt"
)

func (w *World) applyKnobs() {
	set := func(name string, v uint64) {
		if v == 0 {
			return
		}
		if !accountant.SimSetKnob(name, v) {
			w.note("knob %s not available in this tree", name)
			w.KnobMissing = append(w.KnobMissing, name)
		}
	}
	// always restore source defaults first: knobs are package variables shared by all runs of a worker
	for k, v := range sourceKnobs {
		accountant.SimSetKnob(k, v)
	}
	set("truncateDiff", w.Cfg.TruncateDiff)
	set("initialThroughput", w.Cfg.SignalBuf)
	set("maxArraySize", w.Cfg.MaxArraySize)
	set("maxRepeats", w.Cfg.MaxRepeats)
}

var sourceKnobs = map[string]uint64{}

func init() {
	for _, k := range []string{"truncateDiff", "maxArraySize", "maxRepeats", "truncateVrxTopMark", "initialThroughput"} {
		if v, ok := accountant.SimGetKnob(k); ok {
			sourceKnobs[k] = v
		}
	}
}

func (w *World) closeHook(url string) {
	// the caller closed its connection to url: streams it opened there are abandoned
	from := callerNode(w)
	for _, st := range w.Net.open {
		if st.from == from && st.toURL == url && !st.closed {
			st.closed = true
			close(st.done)
		}
	}
}

// onPanic must be called from the deferred function that recovered r.
func (w *World) onPanic(n *Node, where string, r any) {
	msg := fmt.Sprint(r)
	at := simrt.PanicOrigin()
	if at == "" {
		at = where
	}
	w.Panics = append(w.Panics, PanicRec{Node: n.Idx, Where: at, Msg: msg, Tag: w.curTag})
	if len(w.Notes) < 40 {
		st := string(debug.Stack())
		if len(st) > 1800 {
			st = st[:1800]
		}
		w.note("panic in %s at %s: %s\n%s", where, at, msg, st)
	}
	simrt.Logf("panic", "%s: %s", at, msg)
}

// PanicRec is a recovered handler panic (a real node would have crashed).
type PanicRec struct {
	Node  int
	Where string
	Msg   string
	Tag   string
}

func snapDigest(s *Snap) string {
	h := sha256.New()
	ids := make([]string, 0, len(s.LiveIDs))
	for id := range s.LiveIDs {
		ids = append(ids, id)
	}
	sort.Strings(ids)
	for _, id := range ids {
		sv := s.LiveIDs[id]
		h.Write([]byte(id))
		h.Write(sv.V.Hash[:])
		h.Write(sv.V.Transaction.Hash[:])
		for _, p := range sv.GParents {
			h.Write([]byte(p))
		}
		h.Write([]byte{0})
	}
	sk := make([]string, 0, len(s.Stored))
	for k := range s.Stored {
		sk = append(sk, string(k[:]))
	}
	sort.Strings(sk)
	for _, k := range sk {
		h.Write([]byte(k))
	}
	fk := make([]string, 0, len(s.FundsRaw))
	for k := range s.FundsRaw {
		fk = append(fk, k)
	}
	sort.Strings(fk)
	for _, k := range fk {
		h.Write([]byte(k))
		h.Write(s.FundsRaw[k])
	}
	ik := make([]string, 0, len(s.Index))
	for k := range s.Index {
		ik = append(ik, string(k[:]))
	}
	sort.Strings(ik)
	for _, k := range ik {
		h.Write([]byte(k))
		var kk Hash
		copy(kk[:], k)
		h.Write(s.Index[kk])
	}
	for _, p := range s.Parked {
		h.Write(p.Vertex.Hash[:])
	}
	return hex.EncodeToString(h.Sum(nil)[:12])
}

// ---------- C06 ----------

var maxMel = func() *big.Int {
	v := new(big.Int).Lsh(big.NewInt(1), 64)
	v.Mul(v, e18)
	return v
}()

// refBalances computes, for address a on snapshot s, f(tip) for every tip.
func (w *World) refBalances(s *Snap, a string) (vals []*big.Int, gross []*big.Int) {
	// "checkpointed funds" are what the node has checkpointed for the address; that they equal
	// the net flow of the stored vertices is C07's clause, judged separately.
	ck := new(big.Int)
	if f, ok := s.Funds[a]; ok {
		ck = melVal(f)
	}
	for _, l := range s.Leaves {
		h, ok := idHash(l)
		if !ok {
			continue
		}
		sv := s.Live[h]
		if sv == nil {
			continue
		}
		anc := s.ancestors(w.Archive, &sv.V, nil)
		set := map[Hash]*accountant.Vertex{h: &sv.V}
		for ah, av := range anc {
			if _, live := s.Live[ah]; live {
				set[ah] = av
			}
		}
		in, out := flows(a, set)
		f := new(big.Int).Add(ck, in)
		g := new(big.Int).Set(f)
		if in.Cmp(g) > 0 {
			g.Set(in)
		}
		f.Sub(f, out)
		vals = append(vals, f)
		if out.Cmp(g) > 0 {
			g.Set(out)
		}
		gross = append(gross, g)
	}
	return
}

// probeBalances queries every address on node n and compares with the reference.
func (w *World) probeBalances(n *Node, extra []string) {
	before := w.snapshot(n)
	if before == nil || !before.Loaded {
		return
	}
	w.noteTainted(before, w.nstate(n.Idx)) // the truncation loop may have run since the last observation
	callMark := len(w.AccCalls)
	netMark := len(w.Net.Log)
	quietBefore := w.Net.quiet()
	truncMark, truncDoneMark := n.Log.TruncStarts, n.Log.Truncs+len(n.Log.Fatals)
	addrs := append([]string{}, w.WAddr...)
	for _, nn := range w.Nodes {
		addrs = append(addrs, nn.Addr)
	}
	addrs = append(addrs, extra...)
	ctx := context.Background()
	sum := new(big.Int)
	sumOK := len(before.Leaves) == 1
	cur := before
	curD := snapDigest(cur)
	for _, a := range addrs {
		bal, err := n.Book.CalculateBalance(ctx, a)
		// the answer is judged against a snapshot only if the ledger did not move around the query
		stable := false
		for try := 0; try < 3; try++ {
			s1 := w.snapshot(n)
			if s1 == nil {
				break
			}
			d1 := snapDigest(s1)
			if d1 == curD {
				stable = true
				break
			}
			cur, curD = s1, d1
			bal, err = n.Book.CalculateBalance(ctx, a)
		}
		if !stable {
			w.probe("c06-query-not-judged-ledger-moving")
			sumOK = false
			continue
		}
		vals, gross := w.refBalances(cur, a)
		w.probe("c06-balance-queries")
		if err != nil {
			negative, overflow := false, false
			for i, v := range vals {
				if v.Sign() < 0 || v.Cmp(maxMel) >= 0 {
					negative = true // an error is the right answer for (one of) the tips: the sum is negative or not an amount
				} else if gross[i].Cmp(maxMel) >= 0 {
					overflow = true
				}
			}
			switch {
			case negative:
				w.probe("c06-negative-or-unrepresentable-sum-answered-with-error")
			case overflow:
				// the sum is a representable, non-negative amount, but the gross in- or outflow the code adds up
				// separately is not (known finding)
				w.violate("C06", "balance", "error-instead-of-balance:gross-flow-overflow", n.Idx, "address %s ref %v err %v", shortAddr(a), vals, err)
			default:
				w.violate("C06", "balance", "error-instead-of-balance", n.Idx, "address %s ref %v err %v", shortAddr(a), vals, err)
			}
			sumOK = false
			continue
		}
		got := melVal(bal.Spice)
		match := false
		for _, v := range vals {
			if v.Sign() >= 0 && v.Cmp(got) == 0 {
				match = true
			}
		}
		if !canonical(bal.Spice) {
			w.violate("C05", "non-canonical", "non-canonical-balance-reported", n.Idx, "address %s balance %v", shortAddr(a), bal.Spice)
		}
		if !match {
			cause := "balance-differs-from-reference"
			if len(cur.Stored) > 0 {
				cause = "balance-differs-from-reference-after-truncation"
			}
			w.violate("C06", "balance", cause, n.Idx, "address %s got %s ref %v tips %d", shortAddr(a), got, vals, len(cur.Leaves))
		}
		if a != before.Genesis {
			sum.Add(sum, got)
		}
	}
	after := w.snapshot(n)
	undisturbed := callMark == len(w.AccCalls) && netMark == len(w.Net.Log) && quietBefore && w.Net.quiet() && len(before.Parked) == 0 && after != nil && len(after.Parked) == 0
	if n.Log.TruncStarts != truncMark || n.Log.Truncs+len(n.Log.Fatals) != truncDoneMark {
		undisturbed = false // the weight-triggered truncation loop ran (or is running) during the queries
	}
	if !undisturbed {
		w.probe("c06-purity-not-judged-concurrent-activity")
	}
	if after != nil && undisturbed && snapDigest(before) != snapDigest(after) && w.onlyKnownVerticesAdded(before, after) {
		// an orphan popped from the retry buffer is, for a moment, neither parked nor in the ledger;
		// its admission during the queries is other activity the brackets above cannot see
		w.probe("c06-purity-not-judged-orphan-admitted-meanwhile")
		undisturbed = false
	}
	if after != nil && undisturbed && snapDigest(before) != snapDigest(after) {
		w.violate("C06", "purity", "balance-query-changed-ledger", n.Idx, "digest %s -> %s; changed: %s", snapDigest(before), snapDigest(after), snapDiff(before, after))
	}
	// C02 supply clause on a single-tip ledger with every vertex but the tip confirmed
	if sumOK && len(before.Trusted) == 0 && curD == snapDigest(before) {
		conf := before.confirmed()
		allv := map[Hash]*accountant.Vertex{}
		for h, sv := range before.Live {
			allv[h] = &sv.V
		}
		for h, sv := range before.Stored {
			allv[h] = &sv.V
		}
		_ = conf
		exp := new(big.Int)
		for _, v := range allv {
			if isGenesisShape(v) {
				exp = melVal(v.Transaction.Spice)
			}
		}
		// transfers into the genesis issuer's wallet leave the other wallets
		gin, _ := flows(before.Genesis, allv)
		exp.Sub(exp, gin)
		overdrawn := false
		for _, a := range addrs {
			if a == before.Genesis {
				continue
			}
			if in, out := flows(a, allv); in.Cmp(out) < 0 {
				overdrawn = true // the union-overdraw oracle reports this ledger; the sum cannot hold on it
			}
		}
		if st := w.nstate(n.Idx); len(st.tainted) > 0 || len(st.gross) > 0 {
			// the checkpoint kept a wallet's gross inflow (known finding, reported by the union-overdraw
			// and C07 oracles under its own cause): balances read through it cannot add up
			w.probe("c02-supply-sum-skipped-checkpoint-tainted")
		} else if overdrawn {
			w.probe("c02-supply-sum-skipped-ledger-overdrawn")
		} else if sum.Cmp(exp) != 0 {
			det := ""
			for _, a := range addrs {
				in, out := flows(a, allv)
				det += fmt.Sprintf(" %s:in=%s,out=%s,funds=%v", shortAddr(a), in, out, before.Funds[a])
			}
			w.violate("C02", "supply", "reported-balances-do-not-sum-to-genesis-supply", n.Idx, "sum %s expected %s; genesis issuer %s;%s; live %d stored %d", sum, exp, before.Genesis[:8], det, len(before.Live), len(before.Stored))
		}
		w.probe("c02-supply-sum-checked")
	}
}

// ---------- C07 ----------

func sameVertexContent(a, b *accountant.Vertex) bool { return sameSigned(a, b) }

func (w *World) doTruncate(n *Node, res *StepResult) {
	s0 := w.snapshot(n)
	if s0 == nil {
		return
	}
	bal0 := map[string]string{}
	ctx := context.Background()
	single := len(s0.Leaves) == 1
	if single {
		for _, a := range w.WAddr {
			if b, err := n.Book.CalculateBalance(ctx, a); err == nil {
				bal0[a] = melVal(b.Spice).String()
			} else {
				bal0[a] = "err"
			}
		}
		if sb := w.snapshot(n); sb != nil && snapDigest(sb) != snapDigest(s0) {
			single = false // the ledger moved while the balances were read
			s0 = sb
		}
	}
	var terr error
	var r StepResult
	callMark := len(w.AccCalls)
	w.spawnOp(fmt.Sprintf("n%d:truncate", n.Idx), n, &r, func(c context.Context) error {
		terr = n.Book.VerifTruncate(c)
		return terr
	})
	if !w.waitOps(opBudget) {
		w.violate("C08", "no-return", "truncate", n.Idx, "truncation did not return within %v", opBudget)
		return
	}
	*res = r
	s1 := w.snapshot(n)
	if s1 == nil {
		return
	}
	w.checkSnap(s1)
	// comparisons that assume nothing but the truncation touched this ledger are made only then
	alone := len(s0.Parked) == 0 && len(s1.Parked) == 0
	for _, c := range w.AccCalls[callMark:] {
		if c.Node == n.Idx {
			alone = false
		}
	}
	for h := range s1.Live {
		if _, was := s0.Live[h]; !was {
			alone = false // something was admitted meanwhile (gossip, orphan retry)
		}
	}
	if !alone {
		w.probe("c07-truncation-raced-with-other-admissions")
	}
	w.noteTruncErr(n.Idx, terr)
	if terr != nil && (errors.Is(terr, accountant.ErrNothingToTruncate) || strings.Contains(terr.Error(), "nothing to truncate")) {
		w.probe("c07-truncate-nothing-to-cut")
	} else if terr != nil {
		w.probe("c07-truncate-failed")
	}
	if terr != nil {
		if alone && snapDigest(s0) != snapDigest(s1) {
			w.violate("C07", "failed-truncate", "failed-truncation-changed-ledger", n.Idx, "err %v; changed: %s", terr, snapDiff(s0, s1))
		}
		return
	}
	moved := map[Hash]*accountant.Vertex{}
	for h, sv := range s1.Stored {
		if _, was := s0.Stored[h]; !was {
			moved[h] = &sv.V
		}
	}
	if len(moved) == 0 {
		w.probe("c07-truncate-moved-nothing")
	} else {
		w.probe("c07-truncate-performed")
		if len(s0.Leaves) > 1 {
			w.probe("c07-truncate-with-several-tips")
		}
		if len(s0.Stored) > 0 {
			w.probe("c07-repeated-truncation")
		}
	}
	// (1) nothing lost, content retrievable and identical
	conf0 := s0.confirmed()
	for _, h := range sortedHashes(conf0) { // fixed order: the reads below pass preemption points
		v := conf0[h]
		sv := s1.get(h)
		if sv == nil {
			w.violate("C07", "lost", "confirmed-vertex-lost-by-truncation", n.Idx, "vertex %s", hx(h))
			continue
		}
		if !sameVertexContent(&sv.V, v) {
			w.violate("C07", "content", "vertex-content-changed-by-truncation", n.Idx, "vertex %s", hx(h))
		}
		rv, err := n.Book.ReadVertex(ctx, h)
		if err != nil {
			w.violate("C07", "lookup", "vertex-not-retrievable-by-hash-after-truncation", n.Idx, "vertex %s: %v", hx(h), err)
		} else if !sameVertexContent(&rv, v) {
			w.violate("C07", "content", "vertex-read-back-differs-after-truncation", n.Idx, "vertex %s", hx(h))
		}
		rt, err := n.Book.ReadTransactionByHash(ctx, v.Transaction.Hash)
		if err != nil {
			w.violate("C07", "lookup", "transaction-not-retrievable-by-hash-after-truncation", n.Idx, "trx %s: %v", hx(v.Transaction.Hash), err)
		} else if !sameTrx(&rt, &v.Transaction) {
			w.violate("C07", "content", "transaction-read-back-differs-after-truncation", n.Idx, "trx %s", hx(v.Transaction.Hash))
		}
	}
	// (2) moved set = removed set, ancestor closed
	for h := range s0.Live {
		_, still := s1.Live[h]
		_, mv := moved[h]
		if !still && !mv {
			// a tentative tip may be dropped as invalid by any admission that examines it (C01): only a
			// truncation that ran alone, or the removal of a vertex that had children, is the truncation's doing
			sv0 := s0.Live[h]
			if alone || (sv0 != nil && len(sv0.GChild) > 0) {
				w.violate("C07", "lost", "vertex-removed-without-being-stored", n.Idx, "vertex %s (children before: %d)", hx(h), len(sv0.GChild))
			} else {
				w.probe("c07-tip-dropped-by-concurrent-admission")
			}
		}
		if still && mv {
			w.violate("C03", "vertex-twice", "vertex-both-live-and-stored", n.Idx, "vertex %s", hx(h))
		}
	}
	for h, v := range moved {
		if _, was := s0.Live[h]; !was {
			w.violate("C07", "moved", "stored-vertex-was-not-live", n.Idx, "vertex %s", hx(h))
		}
		for _, p := range declParents(v) {
			if p == zeroHash {
				continue
			}
			if _, ok := s1.Stored[p]; !ok {
				w.violate("C07", "moved", "moved-set-not-ancestor-closed", n.Idx, "vertex %s parent %s still live", hx(h), hx(p))
			}
		}
	}
	// (3) checkpoint funds = net flow of everything stored, each once
	w.checkCheckpointFunds(s1)
	if !alone {
		return
	}
	if w.storedOverdrawn(s1) || len(w.nstate(n.Idx).tainted) > 0 {
		w.probe("c07-balance-clause-skipped-stored-set-overdrawn")
		return
	}
	// (4) balances unchanged on a single-tip ledger
	if single && len(s1.Leaves) == 1 {
		bal1 := map[string]string{}
		for _, a := range w.WAddr {
			bal1[a] = "err"
			if b, err := n.Book.CalculateBalance(ctx, a); err == nil {
				bal1[a] = melVal(b.Spice).String()
			}
		}
		if sx := w.snapshot(n); sx == nil || snapDigest(sx) != snapDigest(s1) {
			w.probe("c07-balance-clause-not-judged-ledger-moving")
			return
		}
		for _, a := range w.WAddr {
			b1 := bal1[a]
			if b1 != bal0[a] {
				st := map[Hash]*accountant.Vertex{}
				for h, sv := range s1.Stored {
					st[h] = &sv.V
				}
				lv := map[Hash]*accountant.Vertex{}
				for h, sv := range s1.Live {
					lv[h] = &sv.V
				}
				lv0 := map[Hash]*accountant.Vertex{}
				for h, sv := range s0.Live {
					lv0[h] = &sv.V
				}
				si, so := flows(a, st)
				li, lo := flows(a, lv)
				bi, bo := flows(a, lv0)
				if f0, ok := s0.Funds[a]; ok {
					bi = new(big.Int).Add(bi, melVal(f0))
				}
				if bal0[a] == "err" && (bi.Cmp(maxMel) >= 0 || bo.Cmp(maxMel) >= 0) {
					// the only tolerated deviation: an error while a gross sum is not representable
					w.probe("c07-balance-error-before-truncation-gross-overflow")
					continue
				}
				w.violate("C07", "balance", "balance-changed-by-truncation", n.Idx, "address %s %s -> %s; funds record %v; stored in/out %s/%s; live in/out %s/%s; live-before in/out %s/%s; moved %d live %d->%d tips %v->%v", shortAddr(a), bal0[a], b1, s1.Funds[a], si, so, li, lo, bi, bo, len(moved), len(s0.Live), len(s1.Live), len(s0.Leaves), len(s1.Leaves))
			}
		}
	}
	// (5) re-submission of moved material is refused and changes nothing
	cnt := 0
	for _, h := range sortedHashes(moved) {
		if cnt >= 3 {
			break
		}
		cnt++
		v := *moved[h]
		d0 := snapDigest(s1)
		err := n.Book.AddLeaf(ctx, &v)
		if err == nil {
			w.violate("C07", "resubmit", "checkpointed-vertex-accepted-again", n.Idx, "vertex %s", hx(h))
		}
		if !isGenesisShape(&v) && v.Transaction.IssuerAddress != n.Addr {
			t := v.Transaction
			if _, err := n.Book.CreateLeaf(ctx, &t); err == nil {
				w.violate("C07", "resubmit", "checkpointed-transaction-accepted-again", n.Idx, "trx %s", hx(t.Hash))
			}
		}
		quiet := true
		for _, c := range w.AccCalls[callMark:] {
			if c.Node == n.Idx {
				quiet = false
			}
		}
		s2 := w.snapshot(n)
		if s2 != nil {
			for h2 := range s2.Live {
				if _, was := s1.Live[h2]; !was && h2 != h {
					quiet = false
				}
			}
		}
		if quiet && s2 != nil && len(s2.Parked) == 0 && snapDigest(s2) != d0 {
			w.violate("C07", "resubmit", "refused-resubmission-changed-ledger", n.Idx, "vertex %s; changed: %s", hx(h), snapDiff(s1, s2))
		}
	}
}

// storedOverdrawn reports whether some wallet other than the genesis issuer has spent more
// than it received within the stored vertices: the ledger already breaks C02 (two branches
// spending the same funds were merged, or the trusted exemption was used) and no
// checkpoint can represent that wallet's funds.
func (w *World) storedOverdrawn(s *Snap) bool {
	stored := map[Hash]*accountant.Vertex{}
	addrs := map[string]bool{}
	gi := ""
	for h, sv := range s.Stored {
		stored[h] = &sv.V
		if isGenesisShape(&sv.V) {
			gi = sv.V.Transaction.IssuerAddress
		}
		if isTransfer(&sv.V.Transaction) {
			addrs[sv.V.Transaction.IssuerAddress] = true
		}
	}
	for a := range addrs {
		if a == gi {
			continue
		}
		in, out := flows(a, stored)
		if in.Cmp(out) < 0 {
			return true
		}
	}
	return false
}

func (w *World) checkCheckpointFunds(s *Snap) {
	if len(w.nstate(s.Node).tainted) > 0 {
		w.probe("c07-funds-clause-skipped-checkpoint-tainted")
		return
	}
	if len(s.Trusted) > 0 || len(w.Cfg.Trusted) > 0 {
		// under the trusted-node exemption a wallet's net flow can be negative, which no
		// checkpoint can represent; the clause is judged on ledgers without the exemption
		w.probe("c07-funds-clause-skipped-trusted-exemption")
		return
	}
	stored := map[Hash]*accountant.Vertex{}
	addrs := map[string]bool{}
	for h, sv := range s.Stored {
		stored[h] = &sv.V
		if isTransfer(&sv.V.Transaction) {
			addrs[sv.V.Transaction.IssuerAddress] = true
			addrs[sv.V.Transaction.ReceiverAddress] = true
		}
	}
	for a := range s.Funds {
		addrs[a] = true
	}
	for _, a := range sortedStrings(addrs) {
		in, out := flows(a, stored)
		net := new(big.Int).Sub(in, out)
		if net.Sign() < 0 {
			continue // only possible for the genesis issuer or under the trusted exemption
		}
		f, ok := s.Funds[a]
		got := new(big.Int)
		if ok {
			got = melVal(f)
		}
		if got.Cmp(net) != 0 && (in.Cmp(maxMel) >= 0 || out.Cmp(maxMel) >= 0) {
			w.violate("C07", "funds", "checkpoint-gross-flow-not-representable", s.Node, "address %s funds %s net flow %s (stored in %s out %s)", shortAddr(a), got, net, in, out)
			continue
		}
		if got.Cmp(net) != 0 {
			w.violate("C07", "funds", "checkpoint-funds-differ-from-net-flow-of-stored-vertices", s.Node, "address %s funds %s net flow %s (stored in %s out %s, %d stored vertices)", shortAddr(a), got, net, in, out, len(s.Stored))
		}
	}
}

// ---------- step execution ----------

func (w *World) execStep(i int, s *Step) {
	w.stepIdx = i
	if s.DelayMS > 0 {
		simrt.SleepFor(time.Duration(s.DelayMS) * time.Millisecond)
	}
	res := &w.Results[i]
	var n *Node
	if s.Node >= 0 && s.Node < len(w.Nodes) {
		n = w.Nodes[s.Node]
	}
	needNode := func() bool { return n != nil && n.Alive }
	switch s.Op {
	case "propose", "dup":
		if !needNode() {
			return
		}
		var trx transaction.Transaction
		if s.Op == "dup" {
			if s.Ref < 0 || s.Ref >= i || w.Trxs[s.Ref] == nil {
				return
			}
			trx = *w.Trxs[s.Ref]
			w.probe("c03-duplicate-offered")
		} else {
			t, err := w.newTrx(s)
			if err != nil {
				res.Err = "build: " + err.Error()
				res.Done = true
				return
			}
			trx = t
			if s.Cur >= 1<<62 || s.Sup >= e18u-2 || (s.Sup <= 2 && s.Cur == 0 && s.Sup > 0) {
				w.probe("c05-boundary-amount-offered")
			}
			if s.From < 0 || (s.Cur == 0 && s.Sup == 0 && s.Data == 0) {
				w.probe("c10-forbidden-proposal-offered")
			}
		}
		w.Trxs[i] = &trx
		via := s.Via
		if via == "" {
			if w.Cfg.Direct {
				via = "ledger"
			} else {
				via = "notary"
			}
		}
		var before *Snap
		if !s.NoWait {
			before = w.snapshot(n) // may wait for the ledger lock: the marks below are taken afterwards
		}
		mark := len(w.AccCalls)
		cmark := len(w.Created)
		w.spawnOp(fmt.Sprintf("n%d:%s#%d", n.Idx, s.Op, i), n, res, func(ctx context.Context) error {
			return w.propose(ctx, n, &trx, via, res)
		})
		if s.NoWait {
			return
		}
		if !w.waitOps(opBudget) {
			w.violate("C08", "no-return", "propose", n.Idx, "proposal did not return within %v", opBudget)
			return
		}
		after := w.snapshot(n)
		if after != nil {
			w.checkSnap(after)
		}
		// judge the created vertex only if nothing else touched this ledger meanwhile
		clean := true
		var created *accountant.Vertex
		calls := 0
		for _, c := range w.AccCalls[mark:] {
			if c.Node != n.Idx {
				continue
			}
			if c.Op == "AddLeaf" || c.Op == "CreateLeaf" {
				calls++
			}
		}
		if calls > 1 || (before != nil && len(before.Parked) > 0) || (after != nil && len(after.Parked) > 0) {
			clean = false
		}
		for _, o := range w.pending {
			if o.node == n.Idx && !o.res.Done {
				clean = false
			}
		}
		for k := len(w.Created) - 1; k >= cmark; k-- {
			if w.Created[k].Node == n.Idx && w.Created[k].V.Transaction.Hash == trx.Hash {
				created = &w.Created[k].V
				break
			}
		}
		if created != nil && before != nil && after != nil {
			for h := range after.Live {
				if _, was := before.Live[h]; !was && h != created.Hash {
					clean = false // something else was admitted in the window (orphan retry, late gossip)
				}
			}
		}
		if clean && created != nil && before != nil && after != nil {
			w.probe("c09-created-vertex-checked")
			if os.Getenv("SIM_DEBUG_CREATED") != "" {
				for k, c := range w.Created {
					w.note("created[%d] n%d %s trx %s at %d", k, c.Node, hx(c.V.Hash), hx(c.V.Transaction.Hash), c.At)
				}
				w.note("cmark %d mark %d calls %d before.At %d leaves %v", cmark, mark, calls, before.At, before.Leaves)
			}
			w.checkCreated(before, created)
			w.checkTipsDropped(before, after)
		}
	case "probe":
		if needNode() {
			w.probeBalances(n, w.extraAddrs())
			w.probeReads(n)
		}
	case "truncate":
		if needNode() {
			w.doTruncate(n, res)
		}
	case "inject":
		if needNode() {
			w.doInject(i, s, n, res)
		}
	case "partition":
		for _, l := range s.Links {
			w.Net.cut[linkKey(l[0], l[1])] = true
		}
		w.fault("partition")
	case "heal":
		if len(w.Net.cut) > 0 {
			w.fault("heal")
		}
		w.Net.cut = map[[2]int]bool{}
	case "crash":
		if needNode() && n.Idx != 0 {
			w.stopNode(n.Idx)
			delete(w.nstates, n.Idx)
			w.fault("crash")
		}
	case "restart":
		if n != nil && !n.Alive {
			src := s.Node2
			if src < 0 || src >= len(w.Nodes) || !w.Nodes[src].Alive {
				src = 0
			}
			if err := w.joinNode(n.Idx, src); err != nil {
				w.note("restart n%d: %v", n.Idx, err)
				w.probe("restart-failed")
				if n.Alive {
					w.stopNode(n.Idx)
				}
			} else {
				w.fault("restart")
				for _, t := range w.Cfg.Trusted {
					if t < len(w.Nodes) {
						n.Book.AddTrustedNode(w.Nodes[t].Addr)
					}
				}
			}
		}
	case "genesis":
		w.doGenesis(s, n)
	case "sleep":
		simrt.SleepFor(time.Duration(s.K) * time.Millisecond)
	case "clockjump":
		simrt.SleepFor(time.Duration(s.K) * time.Second)
		w.fault("clock-jump")
	case "retry":
		if needNode() {
			ok, err := n.Book.VerifRetryOne(context.Background())
			if ok {
				w.probe("orphan-retried-by-hook")
			}
			_ = err
		}
	default:
		if f := extraOps[s.Op]; f != nil {
			f(w, i, s, n, res)
		} else {
			w.note("unknown op %q", s.Op)
		}
	}
}

var extraOps = map[string]func(w *World, i int, s *Step, n *Node, res *StepResult){}

func (w *World) extraAddrs() []string {
	if w.strangerAddr == "" {
		w.strangerAddr = newWalletFrom(newPRNG(w.Seed ^ 0x5151)).Address()
	}
	return append([]string{w.strangerAddr}, w.TextAddrs...)
}

// probeReads reads every known transaction and vertex by hash and compares with the snapshot.
func (w *World) probeReads(n *Node) {
	s := w.snapshot(n)
	if s == nil || !s.Loaded {
		return
	}
	ctx := context.Background()
	conf := s.confirmed()
	check := func(h Hash, v *accountant.Vertex) {
		rv, err := n.Book.ReadVertex(ctx, h)
		if err != nil {
			// an unconfirmed tip may be dropped by the validation of an operation still in flight
			// (that is C01's mechanism, not a loss): only what was confirmed must stay readable
			if _, c := conf[h]; !c {
				if s2 := w.snapshot(n); s2 != nil && s2.get(h) == nil {
					w.probe("by-hash-read-raced-with-tip-drop")
					return
				}
			}
			w.violate("C07", "lookup", "vertex-not-retrievable-by-hash", n.Idx, "vertex %s: %v", hx(h), err)
		} else if !sameSigned(&rv, v) {
			w.violate("C19", "storage", "vertex-read-back-differs", n.Idx, "vertex %s", hx(h))
		}
		rt, err := n.Book.ReadTransactionByHash(ctx, v.Transaction.Hash)
		if err != nil {
			if _, c := conf[h]; !c {
				if s2 := w.snapshot(n); s2 != nil && s2.get(h) == nil {
					w.probe("by-hash-read-raced-with-tip-drop")
					return
				}
			}
			w.violate("C07", "lookup", "transaction-not-retrievable-by-hash", n.Idx, "trx %s: %v", hx(v.Transaction.Hash), err)
		} else if !sameTrx(&rt, &v.Transaction) {
			w.violate("C19", "storage", "transaction-read-back-differs", n.Idx, "trx %s", hx(v.Transaction.Hash))
		}
		w.probe("by-hash-reads")
	}
	// fixed order: the reads go through preemption points, whose draws must not depend on map order
	lv, sv2 := map[Hash]*accountant.Vertex{}, map[Hash]*accountant.Vertex{}
	for h, sv := range s.Live {
		lv[h] = &sv.V
	}
	for h, sv := range s.Stored {
		sv2[h] = &sv.V
	}
	for _, h := range sortedHashes(lv) {
		check(h, lv[h])
	}
	for _, h := range sortedHashes(sv2) {
		check(h, sv2[h])
	}
}

// settle lets the network drain after the last step.
func (w *World) settle() {
	ms := w.Cfg.SettleMS
	if ms <= 0 {
		ms = 3000
	}
	deadline := simrt.Now() + int64(time.Duration(ms)*time.Millisecond)
	hard := simrt.Now() + int64(90*time.Second)
	for {
		simrt.SleepFor(50 * time.Millisecond)
		busy := !w.Net.quiet()
		for _, o := range w.pending {
			if !o.res.Done {
				busy = true
			}
		}
		now := simrt.Now()
		if (!busy && now > deadline) || now > hard {
			return
		}
	}
}

var errNotImplemented = errors.New("not implemented")

func shortErr(e string) string {
	if i := strings.IndexByte(e, '\n'); i >= 0 {
		e = e[:i]
	}
	if len(e) > 120 {
		e = e[:120]
	}
	return e
}

var _ = bytes.Equal

// snapDiff describes how two snapshots differ (for violation details).
func snapDiff(a, b *Snap) string {
	var out []string
	for h := range a.Live {
		if _, ok := b.Live[h]; !ok {
			out = append(out, "live-"+hx(h))
		}
	}
	for h := range b.Live {
		if _, ok := a.Live[h]; !ok {
			out = append(out, "live+"+hx(h))
		}
	}
	for h := range a.Stored {
		if _, ok := b.Stored[h]; !ok {
			out = append(out, "stored-"+hx(h))
		}
	}
	for h := range b.Stored {
		if _, ok := a.Stored[h]; !ok {
			out = append(out, "stored+"+hx(h))
		}
	}
	for k, v := range a.FundsRaw {
		if w, ok := b.FundsRaw[k]; !ok || !bytes.Equal(v, w) {
			out = append(out, "funds~"+shortAddr(k))
		}
	}
	for k := range b.FundsRaw {
		if _, ok := a.FundsRaw[k]; !ok {
			out = append(out, "funds+"+shortAddr(k))
		}
	}
	for k, v := range a.Index {
		if w, ok := b.Index[k]; !ok || !bytes.Equal(v, w) {
			out = append(out, "index~"+hx(k))
		}
	}
	for k := range b.Index {
		if _, ok := a.Index[k]; !ok {
			out = append(out, "index+"+hx(k))
		}
	}
	sort.Strings(out)
	if len(out) > 12 {
		out = append(out[:12], "...")
	}
	return strings.Join(out, " ")
}

// onlyKnownVerticesAdded: b differs from a only by additional live vertices that were created or crafted
// earlier in this run (and their index entries); nothing was removed, nothing stored, no funds changed.
func (w *World) onlyKnownVerticesAdded(a, b *Snap) bool {
	if len(a.Stored) != len(b.Stored) || len(a.FundsRaw) != len(b.FundsRaw) {
		return false
	}
	for h := range a.Live {
		if _, ok := b.Live[h]; !ok {
			return false
		}
	}
	for h := range a.Stored {
		if _, ok := b.Stored[h]; !ok {
			return false
		}
	}
	for k, v := range a.FundsRaw {
		if bv, ok := b.FundsRaw[k]; !ok || string(bv) != string(v) {
			return false
		}
	}
	added := 0
	for h, sv := range b.Live {
		if _, was := a.Live[h]; was {
			continue
		}
		av := w.Archive.V[h]
		if av == nil || !sameSigned(&av.V, &sv.V) {
			return false
		}
		added++
	}
	return added > 0
}

// doGenesis offers the ledger a genesis it has to refuse: a second one on a ledger that already has its
// genesis (created here or loaded from a peer), or - on a fresh node - one whose transaction has neither
// data nor spice (what an absent genesis amount in the configuration asks for).
func (w *World) doGenesis(s *Step, n *Node) {
	to := s.To
	if to < 0 || to >= len(w.WAddr) {
		to = 0
	}
	switch s.Kind {
	case "again":
		if n == nil || !n.Alive || !n.Book.DagLoaded() {
			return
		}
		before := w.snapshot(n)
		_, err := n.Book.CreateGenesis("Genesis Vertex", spice.New(w.Supply.Currency, w.Supply.SupplementaryCurrency), []byte{}, w.WAddr[to])
		w.probe("c10-second-genesis-offered")
		after := w.snapshot(n)
		if err == nil {
			w.violate("C10", "genesis", "second-genesis-on-a-ledger-that-has-one", n.Idx, "CreateGenesis on a ledger of %d vertices returned no error", len(before.Live)+len(before.Stored))
			return
		}
		if before != nil && after != nil && len(after.Roots) > len(before.Roots) {
			w.violate("C10", "genesis", "refused-second-genesis-left-a-root", n.Idx, "roots %d -> %d", len(before.Roots), len(after.Roots))
		}
	case "empty":
		j := w.addNode()
		if err := w.startNode(j.Idx); err != nil {
			w.note("genesis/empty: start n%d: %v", j.Idx, err)
			return
		}
		v, err := j.Book.CreateGenesis("Genesis Vertex", spice.New(0, 0), []byte{}, w.WAddr[to])
		w.probe("c10-empty-genesis-offered")
		if err == nil && v.Transaction.IsEmpty() {
			w.violate("C10", "genesis", "empty-transaction-sealed-as-genesis", j.Idx, "CreateGenesis with no spice and no data sealed vertex %x", v.Hash[:4])
		}
		w.stopNode(j.Idx)
	}
}
