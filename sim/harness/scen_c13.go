package harness

import (
	"context"
	"fmt"
	"sort"
	"strings"
	"time"

	"github.com/bartossh/Computantis/src/accountant"
	"github.com/bartossh/Computantis/src/gossip"
	pb "github.com/bartossh/Computantis/src/protobufcompiled"
	"verif.local/simrt"
)

// C13: a valid history reaches a node that only has genesis in a seeded permutation, with
// duplicates and invalid material mixed in; the real 2 s retry ticker runs on the fake clock.

func (w *World) isolate(idx int, on bool) {
	for _, o := range w.Nodes {
		if o.Idx != idx {
			if on {
				w.Net.cut[linkKey(idx, o.Idx)] = true
			} else {
				delete(w.Net.cut, linkKey(idx, o.Idx))
			}
		}
	}
}

func ledgerSignature(s *Snap) string {
	var parts []string
	for h, sv := range s.Live {
		ps := append([]string{}, sv.GParents...)
		sort.Strings(ps)
		x := []string{}
		for _, p := range ps {
			x = append(x, fmt.Sprintf("%x", p[:4]))
		}
		idx := fmt.Sprintf("%x", s.Index[sv.V.Transaction.Hash])
		if len(idx) > 8 {
			idx = idx[:8]
		}
		parts = append(parts, fmt.Sprintf("%s<%s|%s", hx(h), strings.Join(x, ","), idx))
	}
	sort.Strings(parts)
	return strings.Join(parts, ";")
}

func orphanScenario(w *World, p *Plan, rec *Record) {
	if err := w.bootstrap(); err != nil {
		rec.Infra = "bootstrap: " + err.Error()
		return
	}
	r := newPRNG(p.Seed ^ 0xC13)
	ctx := context.Background()
	nn := len(w.Nodes)
	target, refNode := w.Nodes[nn-1], w.Nodes[nn-2] // both keep only genesis while the history is made
	w.isolate(target.Idx, true)
	w.isolate(refNode.Idx, true)
	makers := w.Nodes[:nn-2]
	// 1. a valid history (no conflicting spends: wallet 0 holds the supply and pays small amounts)
	hsize := 3 + r.Intn(15)
	for k := 0; k < hsize; k++ {
		n := makers[r.Intn(len(makers))]
		st := Step{Op: "propose", Node: n.Idx, From: 0, To: 1 + r.Intn(len(w.Wallets)-1), Sup: uint64(1 + r.Intn(100000)), Via: "ledger", NoWait: r.Chance(0.3)}
		if r.Chance(0.2) {
			st.Data, st.Sup = 1+r.Intn(30), 0
		}
		w.Results = append(w.Results, StepResult{})
		w.Trxs = append(w.Trxs, nil)
		w.execStep(len(w.Results)-1, &st)
		simrt.SleepFor(time.Duration(r.Intn(80)) * time.Millisecond)
	}
	w.waitQuiet(30 * time.Second)
	src := w.snapshot(makers[0])
	if src == nil {
		rec.Infra = "no source snapshot"
		return
	}
	var hist []*accountant.Vertex
	for _, sv := range src.Live {
		if !isGenesisShape(&sv.V) {
			v := sv.V
			hist = append(hist, &v)
		}
	}
	// parents-first order: by weight, then creation time
	sort.Slice(hist, func(i, j int) bool {
		if hist[i].Weight != hist[j].Weight {
			return hist[i].Weight < hist[j].Weight
		}
		if !hist[i].CreatedAt.Equal(hist[j].CreatedAt) {
			return hist[i].CreatedAt.Before(hist[j].CreatedAt)
		}
		return string(hist[i].Hash[:]) < string(hist[j].Hash[:])
	})
	if len(hist) < 2 {
		rec.Infra = ""
		return
	}
	// 2. reference node: parents first
	for _, v := range hist {
		cp := *v
		if err := refNode.Acc.AddLeaf(ctx, &cp); err != nil {
			w.violate("C13", "reference", "valid-history-refused-parents-first", refNode.Idx, "vertex %s: %v", hx(v.Hash), err)
		}
	}
	// 3. target node: seeded permutation, duplicates, invalid material
	type delivery struct {
		v       *accountant.Vertex
		invalid string
	}
	var dl []delivery
	for _, i := range r.Perm(len(hist)) {
		dl = append(dl, delivery{v: hist[i]})
		if r.Chance(0.2) {
			dl = append(dl, delivery{v: hist[i]}) // duplicate
		}
	}
	ninv := r.Intn(4)
	for k := 0; k < ninv; k++ {
		base := hist[r.Intn(len(hist))]
		cp := *base
		kind := []string{"bad-signature", "unknown-parent-forever", "mutated-amount"}[r.Intn(3)]
		switch kind {
		case "bad-signature":
			cp.Signature = append([]byte{}, cp.Signature...)
			cp.Signature[0] ^= 1
			copy(cp.Hash[:], r.Bytes(32)) // under another hash so that it does not shadow the genuine one
		case "unknown-parent-forever":
			nv, err := accountant.NewVertex(base.Transaction, toHash(r.Bytes(32)), toHash(r.Bytes(32)), base.Weight, w.adversary())
			if err != nil {
				continue
			}
			cp = nv
		default:
			cp.Transaction.Spice.Currency += 7
			copy(cp.Hash[:], r.Bytes(32))
		}
		pos := r.Intn(len(dl) + 1)
		dl = append(dl[:pos], append([]delivery{{v: &cp, invalid: kind}}, dl[pos:]...)...)
	}
	known := map[Hash]bool{w.GenesisVertex.Hash: true}
	invalidHashes := map[Hash]string{}
	parkedMax := 0
	for k, d := range dl {
		if !w.opEnabled(k) {
			continue
		}
		w.stepIdx = k
		cp := *d.v
		parentsKnown := true
		for _, ph := range declParents(&cp) {
			if !known[ph] {
				parentsKnown = false
			}
		}
		// the node learns about admissions through retries too: refresh what it knows
		if s := w.snapshot(target); s != nil {
			for h := range s.Live {
				known[h] = true
			}
			parentsKnown = true
			for _, ph := range declParents(&cp) {
				if s.get(ph) == nil {
					parentsKnown = false
				}
			}
			if len(s.Parked) > parkedMax {
				parkedMax = len(s.Parked)
			}
		}
		var err error
		if r.Chance(0.5) {
			err = target.Acc.AddLeaf(ctx, &cp)
		} else {
			msg := &pb.VrxMsgGossip{Vertex: gossip.VerifVertexToProto(&cp), Gossipers: []*pb.Gossiper{signedGossiper(w.adversary(), cp.Hash)}}
			req := &pb.VrxMsgGossip{}
			roundTrip(msg, req)
			var res StepResult
			w.spawnOp(fmt.Sprintf("adv->n%d:deliver#%d", target.Idx, k), target, &res, func(c context.Context) error {
				return w.Net.deliver(c, -1, target, "GossipVrx", cp.Hash, nil, false, func(cc context.Context) error {
					_, e := target.Goss.Server().GossipVrx(cc, req)
					return e
				})
			})
			if !w.waitOps(opBudget) {
				w.violate("C08", "no-return", "gossip-add", target.Idx, "delivery did not return")
				break
			}
			if res.Err != "" {
				err = fmt.Errorf("%s", res.Err)
			}
			// what the ledger said is in the call log
			for i := len(w.AccCalls) - 1; i >= 0; i-- {
				c := w.AccCalls[i]
				if c.Node == target.Idx && c.Op == "AddLeaf" && c.Hash == cp.Hash {
					if c.Err == "" {
						err = nil
					} else {
						err = fmt.Errorf("%s", c.Err)
					}
					break
				}
			}
		}
		if d.invalid != "" {
			invalidHashes[cp.Hash] = d.invalid
			w.fault("invalid-vertex:" + d.invalid)
			if err == nil {
				w.violate("C13", "invalid", "invalid-vertex-accepted:"+d.invalid, target.Idx, "vertex %s", hx(cp.Hash))
			}
		} else if !parentsKnown {
			w.probe("c13-child-before-parent")
			if err == nil || !containsStr(err.Error(), accountant.ErrParentDoesNotExists.Error()) {
				// a duplicate of something already parked is reported differently by the flash memory / buffer: only first arrivals are judged
				raced := false
				if err == nil {
					// the retry ticker may have admitted the parked parent while this delivery was in flight:
					// then the vertex was rightly admitted with its parents present
					if s2 := w.snapshot(target); s2 != nil && s2.get(cp.Hash) != nil {
						raced = true
						for _, ph := range declParents(&cp) {
							if s2.get(ph) == nil {
								raced = false
							}
						}
					}
				}
				if raced {
					w.probe("c13-parent-admitted-by-retry-during-delivery")
				} else if !w.seenDelivery[cp.Hash] {
					w.violate("C13", "report", "missing-parent-not-reported", target.Idx, "vertex %s: %v", hx(cp.Hash), err)
				}
			} else if s := w.snapshot(target); s != nil {
				parked := false
				for _, pk := range s.Parked {
					if pk.Vertex.Hash == cp.Hash {
						parked = true
					}
				}
				if !parked && s.get(cp.Hash) == nil {
					w.violate("C13", "parked", "orphan-not-parked", target.Idx, "vertex %s", hx(cp.Hash))
				}
			}
		}
		if w.seenDelivery == nil {
			w.seenDelivery = map[Hash]bool{}
		}
		w.seenDelivery[cp.Hash] = true
		simrt.SleepFor(time.Duration(r.Intn(400)) * time.Millisecond)
	}
	// 4. let the retry ticker work (bounded: each tick retries one parked vertex)
	tickNS, _ := accountant.VerifConstants()["repeaterTickNS"]
	budget := time.Duration(tickNS) * time.Duration(len(hist)*len(hist)+len(hist)*4+20)
	deadline := simrt.Now() + int64(budget)
	for simrt.Now() < deadline {
		simrt.SleepFor(time.Second)
		s := w.snapshot(target)
		if s == nil {
			break
		}
		if len(s.Parked) > parkedMax {
			parkedMax = len(s.Parked)
		}
		missing := 0
		for _, v := range hist {
			if s.get(v.Hash) == nil {
				missing++
			}
		}
		if missing == 0 {
			break
		}
	}
	simrt.SleepFor(3 * time.Second)
	snaps := w.observe()
	ts, rs := snaps[target.Idx], snaps[refNode.Idx]
	if ts == nil || rs == nil {
		return
	}
	full := len(w.Cfg.OpSkip) == 0 && w.Cfg.OpLimit == 0
	if full {
		for _, v := range hist {
			if ts.get(v.Hash) == nil {
				w.violate("C13", "admitted", "valid-vertex-never-admitted-after-its-parents-arrived", target.Idx, "vertex %s (weight %d), parked now %d", hx(v.Hash), v.Weight, len(ts.Parked))
				break
			}
		}
		if a, b := ledgerSignature(ts), ledgerSignature(rs); a != b && len(w.Viol) == 0 {
			w.violate("C13", "differential", "ledger-differs-from-parents-first-delivery", target.Idx, "out-of-order %d vertices vs parents-first %d", len(ts.Live), len(rs.Live))
		}
		for _, a := range w.WAddr {
			x, _ := w.refBalances(ts, a)
			y, _ := w.refBalances(rs, a)
			if fmt.Sprint(x) != fmt.Sprint(y) && len(w.Viol) == 0 {
				w.violate("C13", "differential", "balances-differ-from-parents-first-delivery", target.Idx, "address %s: %v vs %v", a[:8], x, y)
			}
		}
		for _, pk := range ts.Parked {
			if _, inv := invalidHashes[pk.Vertex.Hash]; !inv && ts.get(pk.Vertex.Hash) == nil {
				w.violate("C13", "parked", "valid-vertex-still-parked-at-the-end", target.Idx, "vertex %s repeated %d", hx(pk.Vertex.Hash), pk.Repeated)
			}
		}
	}
	for h, kind := range invalidHashes {
		if ts.get(h) != nil {
			w.violate("C13", "invalid", "invalid-vertex-in-ledger:"+kind, target.Idx, "vertex %s", hx(h))
		}
	}
	if bound := accountant.VerifConstants()["maxArraySize"]; uint64(parkedMax) > bound {
		w.violate("C13", "bound", "orphan-buffer-exceeded-its-bound", target.Idx, "%d parked, bound %d", parkedMax, bound)
	}
	w.Probes["c13-max-parked"] += int64(parkedMax)
	rec.Nontrivial = w.Probes["c13-child-before-parent"] > 0
	rec.Sample = map[string]any{"history": len(hist), "deliveries": len(dl), "invalid_mixed_in": ninv, "max_parked": parkedMax}
}

func init() {
	scenarios["orphans"] = orphanScenario
	generators["C13"] = func(r *prng, seed uint64, tier string) *Plan {
		cfg := Config{Nodes: 3 + r.Intn(2), Wallets: 3, SupplyCur: 1000, LatMinMS: 2, LatJitMS: 30, DataSize: 2048, StreamBuf: 4, SettleMS: 500, Direct: true}
		return &Plan{Scenario: "orphans", Cfg: cfg}
	}
	nontrivialRule["C13"] = "one evaluation = one seeded run: 1-2 real nodes build a valid history of 3-17 vertices (chains, and multi-tip shapes when two makers propose concurrently) while two further nodes stay cut off with genesis only; the history is then delivered to one of them in a seeded permutation with duplicates and up to 3 invalid vertices (half through the ledger's gossip-add entry, half through the GossipVrx handler) and to the other parents-first; the real 2 s retry ticker runs on the simulated clock; non-trivial = at least one child arrived before its parent; distinct = trace hash"
}
