package harness

import (
	"bytes"
	"encoding/hex"
	"fmt"
	"os"
	"path/filepath"
	"verif.local/simrt"

	"github.com/bartossh/Computantis/src/aeswrapper"
	"github.com/bartossh/Computantis/src/fileoperations"
	"github.com/bartossh/Computantis/src/wallet"
)

// C20: disk faults on the wallet file between SaveWallet and ReadWallet. Per wallet the fault
// positions are enumerated exhaustively (every truncation length, every single-byte
// corruption with every other value); wallets and keys come from the seed.

func readWalletGuarded(h fileoperations.Helper) (w wallet.Wallet, err error, panicked string) {
	defer func() {
		if r := recover(); r != nil {
			panicked = fmt.Sprint(r)
		}
	}()
	w, err = h.ReadWallet()
	return
}

func sameWallet(a, b *wallet.Wallet) bool {
	return bytes.Equal(a.Private, b.Private) && bytes.Equal(a.Public, b.Public) && a.Address() == b.Address()
}

func walletScenario(w *World, p *Plan, rec *Record) {
	r := newPRNG(p.Seed ^ 0xC20)
	dir, _ := os.Getwd()
	path := filepath.Join(dir, fmt.Sprintf("wallet_%d.gob", p.Seed))
	defer os.Remove(path)
	keyLen := []int{16, 32}[r.Intn(2)]
	key := r.Bytes(keyLen)
	wl := newWalletFrom(r)
	cfg := fileoperations.Config{WalletPath: path, WalletPasswd: hex.EncodeToString(key), WalletPemPath: path + ".pem"}
	h := fileoperations.New(cfg, aeswrapper.New())
	simrt.Logf("case", "wallet %s key %d bytes", wl.Address(), keyLen)
	if err := h.SaveWallet(wl); err != nil {
		rec.Infra = "SaveWallet: " + err.Error()
		return
	}
	orig, err := os.ReadFile(path)
	if err != nil {
		rec.Infra = "read back: " + err.Error()
		return
	}
	// intact file, same key
	got, err, pn := readWalletGuarded(h)
	w.probe("c20-roundtrip")
	if pn != "" || err != nil || !sameWallet(&got, wl) {
		w.violate("C20", "roundtrip", "saved-wallet-not-read-back-identically", -1, "err=%v panic=%s", err, pn)
	}
	judge := func(kind, what string) {
		got, err, pn := readWalletGuarded(h)
		w.fault(kind)
		switch {
		case pn != "":
			w.violate("C20", "panic", kind+":"+panicSite(pn), -1, "%s: panic %s", what, pn)
		case err == nil && sameWallet(&got, wl):
			w.violate("C20", "accepted", kind+":damaged-file-yields-original-wallet", -1, "%s", what)
		case err == nil:
			w.violate("C20", "accepted", kind+":damaged-file-yields-different-wallet", -1, "%s -> address %s", what, got.Address())
		}
	}
	// torn write: os.WriteFile truncates, then writes; a crash leaves a prefix
	for n := 0; n < len(orig); n++ {
		os.WriteFile(path, orig[:n], 0o644)
		judge("torn-write", fmt.Sprintf("file cut to %d of %d bytes", n, len(orig)))
	}
	// bit rot: every position, every other value
	buf := make([]byte, len(orig))
	for i := range orig {
		for v := 0; v < 256; v++ {
			if byte(v) == orig[i] {
				continue
			}
			copy(buf, orig)
			buf[i] = byte(v)
			os.WriteFile(path, buf, 0o644)
			judge("bit-rot", fmt.Sprintf("byte %d set to %#x", i, v))
		}
	}
	// extension
	os.WriteFile(path, append(append([]byte{}, orig...), r.Bytes(1+r.Intn(40))...), 0o644)
	judge("extended", "random bytes appended")
	// wrong keys
	os.WriteFile(path, orig, 0o644)
	for k := 0; k < 40; k++ {
		kl := []int{16, 32}[r.Intn(2)]
		wk := r.Bytes(kl)
		if bytes.Equal(wk, key) {
			continue
		}
		if k%8 == 7 { // a key that differs in one bit only
			wk = append([]byte{}, key...)
			wk[r.Intn(len(wk))] ^= 1 << uint(r.Intn(8))
		}
		c2 := cfg
		c2.WalletPasswd = hex.EncodeToString(wk)
		h2 := fileoperations.New(c2, aeswrapper.New())
		got, err, pn := readWalletGuarded(h2)
		w.fault("wrong-key")
		if pn != "" {
			w.violate("C20", "panic", "wrong-key:"+panicSite(pn), -1, "panic %s", pn)
		} else if err == nil {
			w.violate("C20", "accepted", "wrong-key:file-opened-with-other-key", -1, "address %s", got.Address())
		}
	}
	for _, kl := range []int{0, 1, 15, 17, 24, 31, 33, 64} {
		c2 := cfg
		c2.WalletPasswd = hex.EncodeToString(r.Bytes(kl))
		h2 := fileoperations.New(c2, aeswrapper.New())
		_, err, pn := readWalletGuarded(h2)
		w.fault("illegal-key-length")
		if pn != "" {
			w.violate("C20", "panic", "illegal-key-length:"+panicSite(pn), -1, "key of %d bytes: panic %s", kl, pn)
		} else if err == nil {
			w.violate("C20", "accepted", "illegal-key-length:file-opened", -1, "key of %d bytes", kl)
		}
	}
	// stale file: the file of another wallet saved under another key
	other := newWalletFrom(r)
	c3 := cfg
	c3.WalletPasswd = hex.EncodeToString(r.Bytes(keyLen))
	fileoperations.New(c3, aeswrapper.New()).SaveWallet(other)
	judge("stale-file", "file of another wallet under another key")
	// PEM round trip
	if err := h.SaveToPem(wl); err == nil {
		pw, err := h.ReadFromPem()
		w.probe("c20-pem-roundtrip")
		if err != nil || !sameWallet(&pw, wl) {
			w.violate("C20", "roundtrip", "pem-wallet-not-read-back-identically", -1, "err=%v", err)
		}
		os.Remove(cfg.WalletPemPath)
		os.Remove(cfg.WalletPemPath + ".pub")
	} else {
		w.violate("C20", "roundtrip", "pem-save-failed", -1, "%v", err)
	}
	rec.Nontrivial = true
	rec.Sample = map[string]any{"file_bytes": len(orig), "key_bytes": keyLen, "torn_lengths": len(orig), "bit_rot_cases": len(orig) * 255, "address": wl.Address()}
}

func panicSite(msg string) string {
	if len(msg) > 60 {
		msg = msg[:60]
	}
	out := []byte(msg)
	for i, c := range out {
		if c >= '0' && c <= '9' {
			out[i] = '#'
		}
	}
	return string(out)
}

func init() {
	scenarios["wallet"] = walletScenario
	generators["C20"] = func(r *prng, seed uint64, tier string) *Plan { return &Plan{Scenario: "wallet"} }
	nontrivialRule["C20"] = "one evaluation = one seeded wallet + key; per wallet every truncation length 0..len-1, every single-byte corruption (255 values per position), 40 wrong keys, 8 illegal key lengths, one stale file and the PEM round trip are enumerated; distinct = distinct wallet/key (trace hash); fault counts are in faults_fired"
}
