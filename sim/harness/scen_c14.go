package harness

import (
	"context"
	"fmt"
	"time"

	"github.com/bartossh/Computantis/src/accountant"
	"github.com/bartossh/Computantis/src/spice"
	"github.com/bartossh/Computantis/src/transaction"
	"verif.local/simrt"
)

// C14: a node joins through the real sync path (gossip.updateDag -> LoadDag over a SimNet
// stream) from a peer whose ledger has a seeded shape; clean streams must reproduce the peer,
// every single corruption must leave the joiner unloaded.

func syncScenario(w *World, p *Plan, rec *Record) {
	if err := w.bootstrap(); err != nil {
		rec.Infra = "bootstrap: " + err.Error()
		return
	}
	r := newPRNG(p.Seed ^ 0xC14)
	ctx := context.Background()
	makers := w.Nodes
	size := p.Cfg.K
	for k := 0; k < size; k++ {
		n := makers[r.Intn(len(makers))]
		st := Step{Op: "propose", Node: n.Idx, From: 0, To: 1 + r.Intn(len(w.Wallets)-1), Sup: uint64(1 + r.Intn(100000)), Via: "ledger", NoWait: r.Chance(0.3)}
		if r.Chance(0.15) {
			st.Data, st.Sup = 1+r.Intn(30), 0
		}
		if r.Chance(0.15) && k > 2 {
			st.From, st.To, st.Sup = 1, 2, 1 // wallets spending what they received
		}
		w.Results = append(w.Results, StepResult{})
		w.Trxs = append(w.Trxs, nil)
		w.execStep(len(w.Results)-1, &st)
		if r.Chance(0.6) {
			simrt.SleepFor(time.Duration(r.Intn(60)) * time.Millisecond)
		}
		if len(w.stuck) > 0 {
			return
		}
	}
	src := makers[r.Intn(len(makers))]
	truncated := false
	if w.Cfg.TruncateDiff > 0 && size > int(w.Cfg.TruncateDiff)+2 && r.Chance(0.5) {
		w.waitQuiet(20 * time.Second)
		var res StepResult
		w.doTruncate(src, &res)
		if s := w.snapshot(src); s != nil && len(s.Stored) > 0 {
			truncated = true
			w.probe("c14-source-truncated")
		}
	}
	busySource := r.Chance(0.3) && !truncated
	settled := true
	if !busySource {
		settled = w.waitQuiet(60 * time.Second)
	}
	// the stream fault for this run
	fault := p.Cfg.StreamFaultKind
	if fault != "" && fault != "none" {
		w.Net.StreamFault = &StreamFault{Kind: fault, Index: r.Intn(size + 1)}
	}
	sf := w.Net.StreamFault // the stream consumes (and clears) it
	j := w.addNode()
	if busySource {
		// the source keeps receiving proposals while it streams
		for k := 0; k < 3; k++ {
			st := Step{Op: "propose", Node: src.Idx, From: 0, To: 1, Sup: uint64(1 + r.Intn(1000)), Via: "ledger", NoWait: true, DelayMS: r.Intn(5)}
			w.Results = append(w.Results, StepResult{})
			w.Trxs = append(w.Trxs, nil)
			w.execStep(len(w.Results)-1, &st)
		}
		w.probe("c14-source-busy-while-streaming")
	}
	err := w.joinNode(j.Idx, src.Idx)
	if len(w.stuck) > 0 {
		for _, o := range w.stuck {
			w.violate("C08", "no-return", opKind(o.name), o.node, "operation %s did not return", o.name)
		}
		return
	}
	if !w.waitQuiet(60 * time.Second) {
		settled = false
	}
	fired := w.Faults["stream:"+fault] > 0
	ss, js := w.snapshot(src), w.snapshot(j)
	if ss == nil || js == nil {
		return
	}
	rec.Nontrivial = true
	rec.Sample = map[string]any{"source_vertices": len(ss.Live), "source_stored": len(ss.Stored), "source_tips": len(ss.Leaves), "stream_fault": fault, "fault_fired": fired, "join_error": errStr(err), "busy_source": busySource}
	if fired && fault != "none" && fault != "" {
		// all-or-nothing
		w.probe("c14-corrupted-stream")
		if js.Loaded || j.Book.DagLoaded() {
			cause := "corrupted-stream-left-node-loaded:" + fault
			if fault == "cut" && sf != nil && sf.closedPrefix {
				// what arrived before the break is a well-formed smaller DAG: the loader cannot tell
				// an interrupted stream from a complete one (known finding)
				cause = "interrupted-stream-with-well-formed-prefix-loaded-as-complete"
			}
			w.violate("C14", "all-or-nothing", cause, j.Idx, "join error: %v; joiner holds %d of the peer's %d vertices", err, len(js.Live), len(ss.Live))
		}
		t, terr := transaction.New("pay", spice.Melange{SupplementaryCurrency: 1}, nil, w.WAddr[1], w.Wallets[0])
		if terr == nil && !j.Book.DagLoaded() {
			if _, e := j.Book.CreateLeaf(ctx, &t); e == nil {
				w.violate("C14", "all-or-nothing", "unloaded-node-accepts-proposals", j.Idx, "")
			}
		}
		return
	}
	if truncated {
		// the stream only carries live vertices: does the joiner reproduce the peer anyway?
		if err != nil || !js.Loaded {
			w.violate("C14", "load-fails", "source-truncated", j.Idx, "join from a truncated peer: %v", err)
			return
		}
	}
	if err != nil {
		w.violate("C14", "load-fails", "clean-stream-refused", j.Idx, "%v", err)
		return
	}
	if !settled {
		// the makers never went quiet (orphans still travelling): equality with a moving peer is not defined
		w.probe("c14-differential-not-judged-network-not-quiet")
		return
	}
	if busySource {
		// the joiner catches up through gossip afterwards; compare once both are quiet
		ss, js = w.snapshot(src), w.snapshot(j)
		if ledgerSignature(ss) != ledgerSignature(js) {
			// vertices created while the stream ran reach the joiner only through later gossip,
			// and not at all if a relay admitted them through the retry path (C11 finding)
			w.probe("c14-differential-not-judged-source-moved-during-stream")
			return
		}
	}
	// vertices, parent links, index
	if a, b := ledgerSignature(ss), ledgerSignature(js); a != b {
		missing, extra := 0, 0
		for h, sv := range ss.Live {
			if js.get(h) == nil {
				missing++
				w.note("missing on joiner: %s weight %d tip=%v parents %d children %d signer-is-node=%v", hx(h), sv.V.Weight, len(sv.GChild) == 0, len(sv.GParents), len(sv.GChild), w.nodeByAddr(sv.V.SignerPublicAddress) != nil)
			}
		}
		for _, st := range w.Net.open {
			in := false
			for _, v := range st.seen {
				for h := range ss.Live {
					if js.get(h) == nil && toHash(v.Hash) == h {
						in = true
					}
				}
			}
			w.note("stream to n%d carried %d vertices; missing one among them: %v", st.from, len(st.seen), in)
		}
		w.note("source tips %d joiner tips %d; joiner parked %d; joiner log: %v", len(ss.Leaves), len(js.Leaves), len(js.Parked), tailLines(j.Log.Lines, 6))
		for h := range js.Live {
			if ss.get(h) == nil {
				extra++
			}
		}
		cause := "loaded-ledger-differs-from-peer"
		if truncated {
			cause = "loaded-ledger-differs-from-truncated-peer"
		}
		w.violate("C14", "differential", cause, j.Idx, "peer %d live/%d stored, joiner %d live: %d missing, %d extra", len(ss.Live), len(ss.Stored), len(js.Live), missing, extra)
		return
	}
	if ss.Genesis != js.Genesis {
		w.violate("C14", "genesis", "joiner-recognises-other-genesis-wallet", j.Idx, "%s vs %s", ss.Genesis, js.Genesis)
	}
	addrs := append([]string{}, w.WAddr...)
	for _, n := range w.Nodes {
		addrs = append(addrs, n.Addr)
	}
	for _, a := range addrs {
		x, _ := w.refBalances(ss, a)
		y, _ := w.refBalances(js, a)
		if fmt.Sprint(x) != fmt.Sprint(y) {
			w.violate("C14", "balances", "balances-differ-from-peer", j.Idx, "address %s: peer %v joiner %v", a[:8], x, y)
		}
		if len(ss.Leaves) == 1 {
			b1, e1 := src.Book.CalculateBalance(ctx, a)
			b2, e2 := j.Book.CalculateBalance(ctx, a)
			if (e1 == nil) != (e2 == nil) || (e1 == nil && b1.Spice != b2.Spice) {
				w.violate("C14", "balances", "balance-answers-differ-from-peer", j.Idx, "address %s: %v/%v vs %v/%v", a[:8], b1.Spice, e1, b2.Spice, e2)
			}
		}
	}
	// identical follow-up gossip: both must accept and reject alike
	w.isolate(j.Idx, true)
	w.isolate(src.Idx, true)
	var vec []string
	diverged := false // after the first different decision the two ledgers differ: later differences are its consequences
	feed := func(label string, v *accountant.Vertex) {
		if diverged {
			return
		}
		a, b := *v, *v
		w1, w2 := w.snapshot(src), w.snapshot(j)
		e1 := src.Acc.AddLeaf(ctx, &a)
		e2 := j.Acc.AddLeaf(ctx, &b)
		vec = append(vec, fmt.Sprintf("%s:%v/%v", label, e1 == nil, e2 == nil))
		w.probe("c14-follow-up-gossip")
		if (e1 == nil) != (e2 == nil) {
			cause := "joiner-decides-differently-from-peer:" + label
			// the known finding, told by numbers and not by the wording of the refusal: the two nodes' weight
			// windows differ and the vertex's weight lies inside the window of the node that took it and below
			// the window of the node that refused it
			floor := func(s *Snap) uint64 {
				if s == nil || s.Throughput > s.Weight {
					return 0
				}
				return s.Weight - s.Throughput
			}
			windowDiffers := w1 != nil && w2 != nil && (w1.Weight != w2.Weight || w1.Throughput != w2.Throughput)
			taker, refuser := w1, w2
			if e1 != nil {
				taker, refuser = w2, w1
			}
			// the rule is applied to the vertex and to the tips it names (they are validated on the way)
			cands := []uint64{v.Weight}
			for _, ph := range declParents(v) {
				if refuser != nil {
					if pv := refuser.get(ph); pv != nil {
						cands = append(cands, pv.V.Weight)
					}
				}
			}
			// the window moves while the call validates the tips one after the other: the refuser's state after
			// the call counts as well
			refAfter := w.snapshot(j)
			if e1 != nil {
				refAfter = w.snapshot(src)
			}
			_ = taker
			numeric := false
			for _, c := range cands {
				if c < floor(refuser) || c < floor(refAfter) {
					numeric = true
				}
			}
			said := (e1 != nil && containsStr(e1.Error(), "minimal weight")) || (e2 != nil && containsStr(e2.Error(), "minimal weight"))
			weightRefusal := windowDiffers && (numeric || said)
			if weightRefusal && windowDiffers {
				// the weight/throughput window is history dependent and is not part of what a sync transfers (known finding)
				cause = "minimal-weight-window-differs-after-load"
			}
			w.violate("C14", "follow-up", cause, j.Idx, "%s: peer: %v; joiner: %v", label, e1, e2)
			diverged = true
		}
	}
	nfollow := 3 + r.Intn(4)
	for k := 0; k < nfollow; k++ {
		switch r.Intn(6) {
		case 5:
			// a late vertex from a lagging sealer, built on old parents, then a vertex merging it with the current tip
			if v, e := w.craft(src, &Step{Kind: "valid", From: 0, To: 1, Sup: uint64(1 + r.Intn(100)), Via: "old-both"}, w.adversary()); e == nil {
				feed("late-vertex-on-old-parents", v)
				if v2, e2 := w.craft(src, &Step{Kind: "valid", From: 0, To: 1, Sup: uint64(1 + r.Intn(100))}, w.adversary()); e2 == nil {
					feed("merge-of-tip-and-late-vertex", v2)
				}
			}
		case 0, 1:
			if v, e := w.craft(src, &Step{Kind: "valid", From: 0, To: 1, Sup: uint64(1 + r.Intn(100))}, w.adversary()); e == nil {
				feed("valid-child", v)
			}
		case 2:
			lv := map[Hash]*accountant.Vertex{}
			for h, sv := range ss.Live {
				lv[h] = &sv.V
			}
			if hs := sortedHashes(lv); len(hs) > 0 {
				v := *lv[hs[r.Intn(len(hs))]]
				feed("duplicate", &v)
			}
		case 3:
			if v, e := w.craft(src, &Step{Kind: "valid", From: 2 % len(w.Wallets), To: 1, Cur: 1 << 40}, w.adversary()); e == nil {
				feed("overdrawing-tip", v)
				if v2, e2 := w.craft(src, &Step{Kind: "valid", From: 0, To: 1, Sup: 3}, w.adversary()); e2 == nil {
					feed("child-of-overdrawing-tip", v2)
				}
			}
		default:
			// an old, low-weight parent: is the minimal-weight rule applied alike?
			if v, e := w.craftOn(src, ss, &Step{Kind: "valid", From: 0, To: 1, Sup: uint64(1 + r.Intn(100))}, w.adversary(), true); e == nil {
				feed("child-of-old-tip", v)
			}
		}
		if diverged {
			break
		}
		if s1, s2 := w.snapshot(src), w.snapshot(j); s1 != nil && s2 != nil && ledgerSignature(s1) != ledgerSignature(s2) && len(w.Viol) == 0 {
			w.violate("C14", "follow-up", "ledgers-diverge-under-identical-gossip", j.Idx, "after %v", vec)
		}
	}
	w.observe()
}

// craftOn builds a vertex on the lowest-weight tip of the snapshot (or the current tips).
func (w *World) craftOn(n *Node, s *Snap, st *Step, sealer interface {
	Sign(message []byte) (digest [32]byte, signature []byte)
	Address() string
}, lowest bool) (*accountant.Vertex, error) {
	cur := w.snapshot(n)
	if cur == nil || len(cur.Leaves) == 0 {
		return nil, fmt.Errorf("no tips")
	}
	var best *SVertex
	for _, l := range cur.Leaves {
		h, _ := idHash(l)
		if sv := cur.Live[h]; sv != nil && (best == nil || sv.V.Weight < best.V.Weight) {
			best = sv
		}
	}
	iss, rcv := w.walletOf(st.From), w.walletOf(st.To)
	trx, err := transaction.New("crafted", spice.Melange{Currency: st.Cur, SupplementaryCurrency: st.Sup}, nil, rcv.Address(), iss)
	if err != nil {
		return nil, err
	}
	v, err := accountant.NewVertex(trx, best.V.Hash, best.V.Hash, best.V.Weight+1, sealer)
	return &v, err
}

func init() {
	scenarios["sync"] = syncScenario
	generators["C14"] = func(r *prng, seed uint64, tier string) *Plan {
		cfg := Config{Nodes: 1 + r.Intn(2), Wallets: 3, SupplyCur: 100000, LatMinMS: 2, LatJitMS: 25, DataSize: 2048, StreamBuf: 1 + r.Intn(6), SettleMS: 500, Direct: true}
		cfg.K = 1 + r.Intn(40)
		if r.Chance(0.1) {
			cfg.K = 101 + r.Intn(30) // more than the stream buffer of the ledger (100)
		}
		if r.Chance(0.1) {
			cfg.K = 0
		}
		if r.Chance(0.25) {
			cfg.TruncateDiff = uint64(2 + r.Intn(8))
		}
		if r.Chance(0.4) {
			// scale the initial throughput (shipped: 50) down to the size of these ledgers, so that the
			// minimal-weight window matters here as it does for a ledger of hundreds of vertices
			cfg.SignalBuf = uint64(2 + r.Intn(8))
		}
		if r.Chance(0.3) {
			// the loader's vertex buffer (shipped: 1000) scaled down to these ledgers: what happens to the
			// receiving side when the loader has given up and more vertices than the buffer holds keep coming
			cfg.ChanCap = 1 + r.Intn(4)
		}
		cfg.StreamFaultKind = []string{"none", "none", "none", "dup-vertex", "dup-trx", "unknown-parent", "second-self-sealed", "empty-trx", "cut", "unknown-right-parent", "unknown-left-parent"}[r.Intn(11)]
		if cfg.ChanCap > 0 && r.Chance(0.5) {
			// the faults the loader refuses while the stream is still arriving (the others are judged at its end)
			cfg.StreamFaultKind = []string{"dup-vertex", "dup-trx"}[r.Intn(2)]
		}
		if r.Chance(0.3) || (cfg.ChanCap > 0 && r.Chance(0.5)) {
			cfg.PreemptP = []float64{0.02, 0.1}[r.Intn(2)]
			cfg.Spread = 1 + r.Intn(3)
		}
		return &Plan{Scenario: "sync", Cfg: cfg}
	}
	nontrivialRule["C14"] = "one evaluation = one seeded run: 1-2 real nodes build a ledger of 0-130 vertices (chains and multi-tip shapes, optionally truncated with a lowered truncateDiff, optionally still receiving proposals), then a fresh node joins through the real sync client over a SimNet stream (stream buffer 1-6, one seeded stream fault: duplicate vertex, duplicate transaction under a new vertex, unknown parent, second self-sealed vertex, empty transaction, cut; or none); clean streams are judged by ledger/balance equality and by an identical follow-up gossip sequence fed to both nodes; distinct = trace hash"
}

func tailLines(l []string, n int) []string {
	if len(l) > n {
		return l[len(l)-n:]
	}
	return l
}
