package harness

import (
	"context"
	"fmt"
	"strings"
	"time"

	"github.com/bartossh/Computantis/src/accountant"
	"github.com/bartossh/Computantis/src/spice"
	"github.com/bartossh/Computantis/src/transaction"
	"verif.local/simrt"
)

// C08 (dedicated scenarios): cancellation after k consultations of the context, early
// exits of internal walks, injected storage errors, and a slow or vanishing stream consumer
// racing with writers. Afterwards a probe suite must complete and no walker may be left parked.

// countCtx reports Done from its (k+1)-th consultation on.
type countCtx struct {
	context.Context
	k, n   int
	closed chan struct{}
	open   chan struct{}
	fired  *bool
}

func newCountCtx(parent context.Context, k int, fired *bool) *countCtx {
	c := &countCtx{Context: parent, k: k, closed: make(chan struct{}), open: make(chan struct{}), fired: fired}
	close(c.closed)
	return c
}

func (c *countCtx) Done() <-chan struct{} {
	c.n++
	if c.n > c.k {
		*c.fired = true
		return c.closed
	}
	return c.open
}

func (c *countCtx) Err() error {
	if c.n > c.k {
		return context.Canceled
	}
	return nil
}

// probeSuite: one of each operation must still complete.
func (w *World) probeSuite(n *Node, tag string) bool {
	ctx := context.Background()
	ops := []struct {
		name string
		f    func() error
	}{
		{"balance", func() error { _, err := n.Book.CalculateBalance(ctx, w.WAddr[0]); _ = err; return nil }},
		{"history", func() error { n.Book.ReadDAGTransactionsByAddress(ctx, w.WAddr[0]); return nil }},
		{"by-hash", func() error { n.Book.ReadVertex(ctx, w.GenesisVertex.Hash); return nil }},
		{"propose", func() error {
			t, err := transaction.New("probe", spice.Melange{SupplementaryCurrency: 1}, nil, w.WAddr[1], w.Wallets[0])
			if err != nil {
				return nil
			}
			n.Book.CreateLeaf(ctx, &t)
			return nil
		}},
		{"gossip-add", func() error {
			if v, err := w.craft(n, &Step{Kind: "valid", From: 0, To: 1, Sup: 2}, w.adversary()); err == nil {
				n.Book.AddLeaf(ctx, v)
			}
			return nil
		}},
		{"stream", func() error {
			sctx, cancel := context.WithCancel(ctx)
			defer cancel()
			ch := n.Book.StreamDAG(sctx)
			for {
				v, ok := simrt.Recv2(ch)
				if !ok || v == nil {
					return nil
				}
			}
		}},
		{"truncate", func() error { w.noteTruncErr(n.Idx, n.Book.VerifTruncate(ctx)); return nil }},
	}
	for _, o := range ops {
		var res StepResult
		name := o.name
		f := o.f
		w.spawnOp(fmt.Sprintf("n%d:probe-%s", n.Idx, name), n, &res, func(context.Context) error { return f() })
		if !w.waitOps(opBudget) {
			w.violate("C08", "probe", "probe-"+name+"-did-not-return-after:"+tag, n.Idx, "the node no longer serves %s", name)
			return false
		}
		if res.Panic != "" {
			w.violate("C08", "panic", "probe-"+name+"-panicked-after:"+tag, n.Idx, "%s", res.Panic)
			return false
		}
		w.probe("c08-probe-ops")
	}
	return true
}

// leakedWalkers: a graph-walker task that is still alive after a further 20 simulated seconds
// in which no operation is pending was abandoned (a walk takes milliseconds).
func (w *World) leakedWalkers(tag string) {
	alive := map[int]bool{}
	for _, t := range simrt.Unfinished() {
		if strings.HasPrefix(t.Origin, "dag/dag.go") && t.Started {
			alive[t.ID] = true
		}
	}
	if len(alive) == 0 {
		return
	}
	w.waitOps(opBudget)
	simrt.SleepFor(20 * time.Second)
	for _, t := range simrt.Unfinished() {
		if alive[t.ID] {
			w.violate("C08", "leak", "graph-walker-left-parked-after:"+tag, -1, "task %s (created at %s)", t.Name, t.Origin)
		}
	}
}

func wedgeScenario(w *World, p *Plan, rec *Record) {
	if err := w.bootstrap(); err != nil {
		rec.Infra = "bootstrap: " + err.Error()
		return
	}
	r0 := newPRNG(p.Seed ^ 0xC08)
	n := w.Nodes[0]
	// a small ledger
	size := 4 + r0.Intn(30)
	for k := 0; k < size && len(w.stuck) == 0; k++ {
		st := Step{Op: "propose", Node: r0.Intn(len(w.Nodes)), From: 0, To: 1 + r0.Intn(len(w.Wallets)-1), Sup: uint64(1 + r0.Intn(1000)), Via: "ledger", NoWait: r0.Chance(0.2)}
		if w.Cfg.SupplyCur > 1<<62 && r0.Chance(0.5) {
			st.Cur, st.Sup = w.Cfg.SupplyCur/2, 0 // amounts whose accumulation overflows mid-walk
			st.From, st.To = r0.Intn(len(w.Wallets)), r0.Intn(len(w.Wallets))
		}
		w.Results = append(w.Results, StepResult{})
		w.Trxs = append(w.Trxs, nil)
		w.execStep(len(w.Results)-1, &st)
	}
	if len(w.stuck) > 0 {
		for _, o := range w.stuck {
			w.violate("C08", "no-return", opKind(o.name), o.node, "operation %s did not return", o.name)
		}
		return
	}
	w.waitQuiet(20 * time.Second)
	var samples []string
	rounds := 3 + r0.Intn(4)
	for k := 0; k < rounds && len(w.stuck) == 0 && len(w.Viol) == 0; k++ {
		if !w.opEnabled(k) {
			continue
		}
		r := w.opRNG(k)
		w.stepIdx = k
		kinds := []string{"cancel", "cancel", "disk-error", "stream-vs-writers", "cancel"}
		if w.Cfg.TruncateAt > 0 {
			kinds = append(kinds, "burst", "burst")
		}
		if len(w.Nodes) >= 3 {
			kinds = append(kinds, "rejoin", "rejoin")
		}
		if w.Cfg.ChanCap > 0 {
			kinds = append(kinds, "sync", "sync", "sync")
		}
		kind := kinds[r.Intn(len(kinds))]
		tag := kind
		switch kind {
		case "sync":
			// a fresh node loads the ledger from n through the real sync client; the stream may carry a vertex the
			// loader refuses while more vertices than its buffer holds are still arriving. Whatever the loader
			// decides, the sync call has to return
			fk := []string{"none", "dup-vertex", "dup-trx", "tampered-signature", "dup-vertex"}[r.Intn(5)]
			depth := 0
			if s := w.snapshot(n); s != nil {
				depth = len(s.Live)
			}
			if fk != "none" {
				w.Net.StreamFault = &StreamFault{Kind: fk, Index: r.Intn(depth + 1)}
			}
			j := w.addNode()
			err := w.joinNode(j.Idx, n.Idx)
			w.Net.StreamFault = nil
			tag = "sync:" + fk
			samples = append(samples, fmt.Sprintf("sync:%s:%v", fk, err == nil))
			w.probe("c08-sync-round")
			if len(w.stuck) == 0 {
				w.stopNode(j.Idx)
			}
		case "rejoin":
			// two members refresh their peer tables from the genesis node at the same moment (as after a healed
			// partition): each learns of the other and announces itself to it
			a, b := w.Nodes[1], w.Nodes[2]
			if !a.Alive || !b.Alive {
				continue
			}
			var ra, rb StepResult
			w.spawnOp(fmt.Sprintf("n%d:join", a.Idx), a, &ra, func(ctx context.Context) error { return a.Goss.Join(ctx, w.Nodes[0].URL) })
			w.spawnOp(fmt.Sprintf("n%d:join", b.Idx), b, &rb, func(ctx context.Context) error { return b.Goss.Join(ctx, w.Nodes[0].URL) })
			if !w.waitOps(opBudget) {
				break
			}
			w.probe("c08-simultaneous-rejoin")
			samples = append(samples, "rejoin")
		case "burst":
			// several admissions at once while the weight-triggered truncation loop wants the ledger lock
			nb := 3 + r.Intn(6)
			for j := 0; j < nb; j++ {
				st := Step{Op: []string{"propose", "inject", "propose"}[r.Intn(3)], Kind: "valid", Node: n.Idx, From: 0, To: 1, Sup: uint64(20 + j), Via: "ledger", NoWait: true}
				w.Results = append(w.Results, StepResult{})
				w.Trxs = append(w.Trxs, nil)
				w.execStep(len(w.Results)-1, &st)
			}
			if !w.waitOps(opBudget) {
				break
			}
			w.probe("c08-burst-of-admissions")
			samples = append(samples, fmt.Sprintf("burst:%d", nb))
		case "cancel":
			op := []string{"propose", "gossip-add", "balance", "history", "stream", "truncate"}[r.Intn(6)]
			depth := 0
			if s := w.snapshot(n); s != nil {
				depth = len(s.Live)
			}
			kk := r.Intn(depth + 3)
			fired := false
			cctx := newCountCtx(context.Background(), kk, &fired)
			tag = fmt.Sprintf("cancel:%s", op)
			var res StepResult
			w.spawnOp(fmt.Sprintf("n%d:%s-cancel-after-%d", n.Idx, op, kk), n, &res, func(context.Context) error {
				switch op {
				case "propose":
					t, err := transaction.New("c", spice.Melange{SupplementaryCurrency: 3}, nil, w.WAddr[1], w.Wallets[0])
					if err == nil {
						n.Book.CreateLeaf(cctx, &t)
					}
				case "gossip-add":
					if v, err := w.craft(n, &Step{Kind: "valid", From: 0, To: 1, Sup: 4}, w.adversary()); err == nil {
						n.Book.AddLeaf(cctx, v)
					}
				case "balance":
					n.Book.CalculateBalance(cctx, w.WAddr[r.Intn(len(w.WAddr))])
				case "history":
					n.Book.ReadDAGTransactionsByAddress(cctx, w.WAddr[0])
				case "stream":
					ch := n.Book.StreamDAG(cctx)
					for {
						v, ok := simrt.Recv2(ch)
						if !ok || v == nil {
							break
						}
					}
				default:
					w.noteTruncErr(n.Idx, n.Book.VerifTruncate(cctx))
				}
				return nil
			})
			if !w.waitOps(opBudget) {
				w.violate("C08", "no-return", "cancelled:"+op, n.Idx, "%s with the context cancelled after %d consultations did not return", op, kk)
				break
			}
			if res.Panic != "" {
				w.violate("C08", "panic", "cancelled:"+op, n.Idx, "cancel after %d: %s", kk, res.Panic)
			}
			if fired {
				w.probe("c08-early-exit-or-cancel")
				w.fault("cancel-after-k")
			}
			samples = append(samples, fmt.Sprintf("%s k=%d fired=%v", op, kk, fired))
		case "disk-error":
			sites := []string{}
			for s := range simrt.S.Sites {
				sites = append(sites, s)
			}
			sortStrings(sites)
			if len(sites) == 0 {
				continue
			}
			site := sites[r.Intn(len(sites))]
			simrt.S.Fail[site] = &simrt.FailSpec{Nth: simrt.S.Sites[site] + r.Intn(3)}
			tag = "disk-error:" + site
			for j := 0; j < 3; j++ {
				st := Step{Op: []string{"propose", "inject"}[r.Intn(2)], Kind: "valid", Node: n.Idx, From: 0, To: 1, Sup: uint64(5 + j), Via: "ledger"}
				w.Results = append(w.Results, StepResult{})
				w.Trxs = append(w.Trxs, nil)
				w.execStep(len(w.Results)-1, &st)
			}
			if w.Cfg.TruncateDiff > 0 && r.Chance(0.5) {
				var res StepResult
				w.doTruncate(n, &res)
			}
			if simrt.S.Fail[site].Fired > 0 {
				w.fault("disk-error")
				w.probe("c08-early-exit-or-cancel")
			}
			delete(simrt.S.Fail, site)
			samples = append(samples, tag)
		case "stream-vs-writers":
			done := false
			abandon := r.Chance(0.4)
			stall := time.Duration(r.Intn(40)) * time.Millisecond
			simrt.GoNamed("slow-stream-consumer", func() {
				defer func() { done = true }()
				sctx, cancel := context.WithCancel(context.Background())
				defer cancel()
				ch := n.Book.StreamDAG(sctx)
				got := 0
				for {
					v, ok := simrt.Recv2(ch)
					if !ok || v == nil {
						return
					}
					got++
					w.probe("c08-stream-consumed")
					simrt.SleepFor(stall)
					if abandon && got == 2 {
						return // the peer went away: nobody reads the channel any more
					}
				}
			})
			for j := 0; j < 4; j++ {
				st := Step{Op: []string{"propose", "inject", "propose"}[r.Intn(3)], Kind: "valid", Node: n.Idx, From: 0, To: 1, Sup: uint64(9 + j), Via: "ledger", DelayMS: r.Intn(30)}
				w.Results = append(w.Results, StepResult{})
				w.Trxs = append(w.Trxs, nil)
				w.execStep(len(w.Results)-1, &st)
			}
			if w.Cfg.TruncateDiff > 0 && r.Chance(0.5) {
				var res StepResult
				w.doTruncate(n, &res)
			}
			deadline := simrt.Now() + int64(opBudget)
			for !done && simrt.Now() < deadline {
				simrt.SleepFor(5 * time.Millisecond)
			}
			if !done {
				w.violate("C08", "no-return", "stream-consumer", n.Idx, "the DAG stream never ended while writers were active")
			}
			tag = fmt.Sprintf("stream-vs-writers:abandon=%v", abandon)
			samples = append(samples, tag)
		}
		if len(w.stuck) > 0 {
			break
		}
		ltag := strings.SplitN(strings.SplitN(tag, "=", 2)[0], ":", 2)[0] // cancel | disk-error | stream-vs-writers
		if !w.probeSuite(n, ltag) {
			break
		}
		w.leakedWalkers(ltag)
		w.observe()
	}
	for _, o := range w.stuck {
		w.violate("C08", "no-return", opKind(o.name), o.node, "operation %s did not return", o.name)
	}
	w.checkFatal(w.Faults["disk-error"] > 0)
	rec.Nontrivial = w.Probes["c08-early-exit-or-cancel"] > 0 || w.Probes["c08-stream-consumed"] > 0 || w.Probes["c08-burst-of-admissions"] > 0 || w.Probes["c08-simultaneous-rejoin"] > 0 || w.Probes["c08-sync-round"] > 0
	rec.Sample = samples
	_ = accountant.ErrBreak
}

func init() {
	scenarios["wedge"] = wedgeScenario
	old := generators["C08"]
	generators["C08"] = func(r *prng, seed uint64, tier string) *Plan {
		if seed%3 == 0 {
			return old(r, seed, tier) // the mixed ledger workload with the wedge oracle on
		}
		cfg := Config{Nodes: 1 + r.Intn(3), Wallets: 3, SupplyCur: uint64(1000 + r.Intn(1000)), LatMinMS: 2, LatJitMS: 20, DataSize: 2048, StreamBuf: 2, SettleMS: 300, Spread: 1 + r.Intn(4), Direct: true}
		cfg.PreemptP = []float64{0, 0.05, 0.2, 0.5}[r.Intn(4)]
		if r.Chance(0.6) {
			cfg.TruncateDiff = uint64(2 + r.Intn(8))
		}
		if r.Chance(0.15) {
			cfg.SupplyCur = ^uint64(0) - uint64(r.Intn(3))
		}
		if cfg.TruncateDiff > 0 && r.Chance(0.4) {
			// the weight-triggered truncation loop runs as well, racing with the cancelled operations
			cfg.TruncateDiff = uint64(2 + r.Intn(3))
			cfg.TruncateAt = 2*cfg.TruncateDiff + uint64(r.Intn(3))
			if r.Chance(0.6) {
				cfg.SignalBuf = uint64(1 + r.Intn(3)) // short truncate-signal channel (shipped: 50)
			}
		}
		if r.Chance(0.35) {
			// the sync loader's vertex buffer (shipped: 1000) and the DAG stream's (100) scaled to these ledgers
			cfg.ChanCap = 1 + r.Intn(3)
		}
		return &Plan{Scenario: "wedge", Cfg: cfg}
	}
	nontrivialRule["C08"] = "one evaluation = one seeded run. Two thirds: a ledger of 4-33 vertices, then 3-6 rounds, each one of: an operation (propose, gossip-add, balance, history, stream, truncation) whose context reports cancelled from its (k+1)-th consultation on (k drawn from 0..ancestors+2), an injected storage error at a seeded badger call site during proposals/gossip/truncation, or a stalled or vanishing DAG-stream consumer racing with writers and truncation; after each round a probe suite (balance, history, by-hash, propose, gossip-add, stream, truncation) must complete and no graph-walker task may be left parked. One third: the mixed ledger workload of the other checks with the bounded-progress oracle. non-trivial = a cancellation/storage fault actually fired or a stream was consumed; distinct = trace hash"
}
