package harness

import (
	"context"
	"crypto/sha256"
	"fmt"
	"strings"
	"time"

	"github.com/mr-tron/base58"

	"github.com/bartossh/Computantis/src/accountant"
	"github.com/bartossh/Computantis/src/gossip"
	pb "github.com/bartossh/Computantis/src/protobufcompiled"
	"github.com/bartossh/Computantis/src/spice"
	"github.com/bartossh/Computantis/src/transaction"
	"github.com/bartossh/Computantis/src/wallet"
	"verif.local/simrt"
)

// C04: in-flight corruption. A relay (or the wire) delivers a mutated copy of a valid vertex
// while the genuine copy may have been admitted before, arrive later, or never.

type mutation struct {
	class string
	apply func(w *World, r *prng, v *pb.Vertex, other *pb.Vertex) bool // false: not applicable
}

func flipBit(r *prng, b []byte) []byte {
	if len(b) == 0 {
		return nil
	}
	c := append([]byte{}, b...)
	c[r.Intn(len(c))] ^= 1 << uint(r.Intn(8))
	return c
}

func flipStr(r *prng, s string) string {
	if len(s) == 0 {
		return "x"
	}
	b := []byte(s)
	i := r.Intn(len(b))
	b[i] ^= 1 << uint(r.Intn(7))
	return string(b)
}

func mutations() []mutation {
	return []mutation{
		{"flip:signer-address", func(w *World, r *prng, v, o *pb.Vertex) bool {
			v.SignerPublicAddress = flipStr(r, v.SignerPublicAddress)
			return true
		}},
		{"flip:vertex-created-at", func(w *World, r *prng, v, o *pb.Vertex) bool { v.CreatedAt ^= 1 << uint(r.Intn(64)); return true }},
		{"flip:vertex-signature", func(w *World, r *prng, v, o *pb.Vertex) bool { v.Signature = flipBit(r, v.Signature); return true }},
		{"flip:vertex-hash", func(w *World, r *prng, v, o *pb.Vertex) bool { v.Hash = flipBit(r, v.Hash); return true }},
		{"flip:left-parent", func(w *World, r *prng, v, o *pb.Vertex) bool {
			v.LeftParentHash = flipBit(r, v.LeftParentHash)
			return true
		}},
		{"flip:right-parent", func(w *World, r *prng, v, o *pb.Vertex) bool {
			v.RightParentHash = flipBit(r, v.RightParentHash)
			return true
		}},
		{"flip:weight", func(w *World, r *prng, v, o *pb.Vertex) bool { v.Weight ^= 1 << uint(r.Intn(12)); return true }},
		{"flip:subject", func(w *World, r *prng, v, o *pb.Vertex) bool {
			v.Transaction.Subject = flipStr(r, v.Transaction.Subject)
			return true
		}},
		{"flip:data", func(w *World, r *prng, v, o *pb.Vertex) bool {
			if len(v.Transaction.Data) == 0 {
				return false
			}
			v.Transaction.Data = flipBit(r, v.Transaction.Data)
			return true
		}},
		{"flip:trx-hash", func(w *World, r *prng, v, o *pb.Vertex) bool {
			v.Transaction.Hash = flipBit(r, v.Transaction.Hash)
			return true
		}},
		{"flip:trx-created-at", func(w *World, r *prng, v, o *pb.Vertex) bool {
			v.Transaction.CreatedAt ^= 1 << uint(r.Intn(40))
			return true
		}},
		{"flip:issuer-address", func(w *World, r *prng, v, o *pb.Vertex) bool {
			v.Transaction.IssuerAddress = flipStr(r, v.Transaction.IssuerAddress)
			return true
		}},
		{"flip:receiver-address", func(w *World, r *prng, v, o *pb.Vertex) bool {
			v.Transaction.ReceiverAddress = flipStr(r, v.Transaction.ReceiverAddress)
			return true
		}},
		{"flip:issuer-signature", func(w *World, r *prng, v, o *pb.Vertex) bool {
			v.Transaction.IssuerSignature = flipBit(r, v.Transaction.IssuerSignature)
			return true
		}},
		{"flip:receiver-signature", func(w *World, r *prng, v, o *pb.Vertex) bool {
			if len(v.Transaction.ReceiverSignature) == 0 {
				return false
			}
			v.Transaction.ReceiverSignature = flipBit(r, v.Transaction.ReceiverSignature)
			return true
		}},
		{"flip:currency", func(w *World, r *prng, v, o *pb.Vertex) bool {
			v.Transaction.Spice.Currency ^= 1 << uint(r.Intn(20))
			return true
		}},
		{"flip:supplementary", func(w *World, r *prng, v, o *pb.Vertex) bool {
			v.Transaction.Spice.SupplementaryCurrency ^= 1 << uint(r.Intn(50))
			return true
		}},
		{"resize:data-truncate", func(w *World, r *prng, v, o *pb.Vertex) bool {
			if len(v.Transaction.Data) == 0 {
				return false
			}
			v.Transaction.Data = v.Transaction.Data[:r.Intn(len(v.Transaction.Data))]
			return true
		}},
		{"resize:data-extend", func(w *World, r *prng, v, o *pb.Vertex) bool {
			v.Transaction.Data = append(append([]byte{}, v.Transaction.Data...), r.Bytes(1+r.Intn(8))...)
			return true
		}},
		{"resize:subject-truncate", func(w *World, r *prng, v, o *pb.Vertex) bool {
			if len(v.Transaction.Subject) < 2 {
				return false
			}
			v.Transaction.Subject = v.Transaction.Subject[:1+r.Intn(len(v.Transaction.Subject)-1)]
			return true
		}},
		{"resize:subject-extend", func(w *World, r *prng, v, o *pb.Vertex) bool { v.Transaction.Subject += "x"; return true }},
		{"resize:signature-truncate", func(w *World, r *prng, v, o *pb.Vertex) bool {
			v.Signature = v.Signature[:r.Intn(len(v.Signature))]
			return true
		}},
		{"resize:issuer-signature-extend", func(w *World, r *prng, v, o *pb.Vertex) bool {
			v.Transaction.IssuerSignature = append(append([]byte{}, v.Transaction.IssuerSignature...), 0)
			return true
		}},
		{"move-bytes:subject->data", func(w *World, r *prng, v, o *pb.Vertex) bool {
			s := v.Transaction.Subject
			if len(s) < 2 {
				return false
			}
			k := 1 + r.Intn(len(s)-1)
			v.Transaction.Subject = s[:len(s)-k]
			v.Transaction.Data = append([]byte(s[len(s)-k:]), v.Transaction.Data...)
			return true
		}},
		{"move-bytes:data->subject", func(w *World, r *prng, v, o *pb.Vertex) bool {
			d := v.Transaction.Data
			if len(d) == 0 {
				return false
			}
			k := 1 + r.Intn(len(d))
			for _, c := range d[:k] { // the wire only carries valid UTF-8 strings
				if c >= 0x80 {
					return false
				}
			}
			v.Transaction.Subject += string(d[:k])
			v.Transaction.Data = append([]byte{}, d[k:]...)
			return true
		}},
		{"move-bytes:data->issuer-address", func(w *World, r *prng, v, o *pb.Vertex) bool {
			d := v.Transaction.Data
			if len(d) == 0 || d[len(d)-1] >= 0x80 {
				return false
			}
			v.Transaction.IssuerAddress = string(d[len(d)-1:]) + v.Transaction.IssuerAddress
			v.Transaction.Data = append([]byte{}, d[:len(d)-1]...)
			return true
		}},
		{"move-bytes:issuer-address->data", func(w *World, r *prng, v, o *pb.Vertex) bool {
			a := v.Transaction.IssuerAddress
			v.Transaction.Data = append(append([]byte{}, v.Transaction.Data...), a[0])
			v.Transaction.IssuerAddress = a[1:]
			return true
		}},
		{"move-bytes:issuer-address->receiver-address", func(w *World, r *prng, v, o *pb.Vertex) bool {
			a := v.Transaction.IssuerAddress
			v.Transaction.ReceiverAddress = a[len(a)-1:] + v.Transaction.ReceiverAddress
			v.Transaction.IssuerAddress = a[:len(a)-1]
			return true
		}},
		{"move-bytes:subject->receiver-address", func(w *World, r *prng, v, o *pb.Vertex) bool {
			// the signed message is subject|data|issuer|receiver without framing: when the subject itself mentions
			// the issuer's address (as a payment reference would), everything behind that mention can be handed to
			// the receiver field - nobody's key is needed, and the spice goes to a string nobody owns
			t := v.Transaction
			i := strings.Index(t.Subject, t.IssuerAddress)
			if i <= 0 || len(t.Data) != 0 {
				return false
			}
			rest := t.Subject[i+len(t.IssuerAddress):]
			t.ReceiverAddress = rest + t.IssuerAddress + t.ReceiverAddress
			t.Subject = t.Subject[:i]
			return true
		}},
		{"swap:transaction", func(w *World, r *prng, v, o *pb.Vertex) bool {
			if o == nil {
				return false
			}
			v.Transaction = o.Transaction
			return true
		}},
		{"swap:vertex-signature", func(w *World, r *prng, v, o *pb.Vertex) bool {
			if o == nil {
				return false
			}
			v.Signature = o.Signature
			return true
		}},
		{"swap:parents", func(w *World, r *prng, v, o *pb.Vertex) bool {
			if o == nil || string(o.LeftParentHash) == string(v.LeftParentHash) {
				return false
			}
			v.LeftParentHash, v.RightParentHash = o.LeftParentHash, o.RightParentHash
			return true
		}},
		{"swap:amount", func(w *World, r *prng, v, o *pb.Vertex) bool {
			if o == nil || (o.Transaction.Spice.Currency == v.Transaction.Spice.Currency && o.Transaction.Spice.SupplementaryCurrency == v.Transaction.Spice.SupplementaryCurrency) {
				return false
			}
			v.Transaction.Spice = o.Transaction.Spice
			return true
		}},
		{"replace:signer-with-other-wallet", func(w *World, r *prng, v, o *pb.Vertex) bool { v.SignerPublicAddress = w.WAddr[0]; return true }},
		{"replace:issuer-with-other-wallet", func(w *World, r *prng, v, o *pb.Vertex) bool {
			a := w.WAddr[r.Intn(len(w.WAddr))]
			if a == v.Transaction.IssuerAddress {
				return false
			}
			v.Transaction.IssuerAddress = a
			return true
		}},
		{"replace:receiver-with-other-wallet", func(w *World, r *prng, v, o *pb.Vertex) bool {
			a := w.WAddr[r.Intn(len(w.WAddr))]
			if a == v.Transaction.ReceiverAddress {
				return false
			}
			v.Transaction.ReceiverAddress = a
			return true
		}},
		{"replace:issuer-signature-by-other-wallet", func(w *World, r *prng, v, o *pb.Vertex) bool {
			_, s := w.adversary().Sign(v.Transaction.Hash)
			v.Transaction.IssuerSignature = s
			return true
		}},
		{"replace:vertex-signature-by-other-wallet", func(w *World, r *prng, v, o *pb.Vertex) bool {
			_, s := w.Wallets[0].Sign(v.Hash)
			v.Signature = s
			return true
		}},
		{"strip-receiver-signature", func(w *World, r *prng, v, o *pb.Vertex) bool {
			if len(v.Transaction.ReceiverSignature) == 0 {
				return false
			}
			v.Transaction.ReceiverSignature = nil
			return true
		}},
		{"replace:receiver-signature-by-other-wallet", func(w *World, r *prng, v, o *pb.Vertex) bool {
			if len(v.Transaction.ReceiverSignature) == 0 {
				return false
			}
			_, s := w.adversary().Sign(v.Transaction.Hash)
			v.Transaction.ReceiverSignature = s
			return true
		}},
		{"add-receiver-signature-by-other-wallet", func(w *World, r *prng, v, o *pb.Vertex) bool {
			if len(v.Transaction.ReceiverSignature) != 0 {
				return false
			}
			_, s := w.adversary().Sign(v.Transaction.Hash)
			v.Transaction.ReceiverSignature = s
			return true
		}},
		{"multi-bit:data+amount", func(w *World, r *prng, v, o *pb.Vertex) bool {
			v.Transaction.Spice.Currency += uint64(1 + r.Intn(1000))
			v.Transaction.Data = append(append([]byte{}, v.Transaction.Data...), 1)
			return true
		}},
	}
}

// freshValid builds a correctly signed vertex on node n's current tips (spice transfer the
// issuer can afford, or a countersigned contract), sealed by an outside sealing key.
func (w *World) freshValid(n *Node, r *prng, contract bool) (*accountant.Vertex, error) {
	iss, rcv := w.Wallets[0], w.Wallets[1+r.Intn(len(w.Wallets)-1)]
	amount := spice.Melange{SupplementaryCurrency: uint64(1 + r.Intn(100000))}
	var data []byte
	subj := "payment order"
	if !contract && r.Chance(0.3) {
		subj = "payment from " + iss.Address() + fmt.Sprintf(", order %d", r.Intn(1000)) // a reference that names the payer
	}
	if contract {
		data = []byte(fmt.Sprintf("contract-%d-body", r.Intn(1000)))
		subj = "agreement text"
	}
	trx, err := transaction.New(subj, amount, data, rcv.Address(), iss)
	if err != nil {
		return nil, err
	}
	if contract {
		if _, err := trx.Sign(rcv, w.Verifier); err != nil {
			return nil, err
		}
	}
	l, rr, wt, ok := w.tipsOf(n)
	if !ok {
		return nil, fmt.Errorf("no tips")
	}
	v, err := accountant.NewVertex(trx, l, rr, wt, w.adversary())
	return &v, err
}

func tamperScenario(w *World, p *Plan, rec *Record) {
	r := newPRNG(p.Seed ^ 0xC04)
	if err := w.bootstrap(); err != nil {
		rec.Infra = "bootstrap: " + err.Error()
		return
	}
	ctx := context.Background()
	muts := mutations()
	n := w.Nodes[0]
	// a little honest history so that vertices have real parents
	for k := 0; k < 2+r.Intn(3); k++ {
		st := Step{Op: "propose", Node: r.Intn(len(w.Nodes)), From: 0, To: 1, Sup: uint64(1 + r.Intn(1000)), Via: "ledger"}
		w.Results = append(w.Results, StepResult{})
		w.Trxs = append(w.Trxs, nil)
		w.execStep(len(w.Results)-1, &st)
		simrt.SleepFor(100 * time.Millisecond)
	}
	w.settle()
	var samples []string
	attempts := 12 + r.Intn(10)
	for a := 0; a < attempts; a++ {
		if !w.opEnabled(a) {
			continue
		}
		r := w.opRNG(a)
		n = w.Nodes[r.Intn(len(w.Nodes))]
		contract := r.Chance(0.5)
		base, err := w.freshValid(n, r, contract)
		if err != nil {
			continue
		}
		other, _ := w.freshValid(n, r, !contract)
		genuineFirst := r.Chance(0.25)
		if genuineFirst {
			g := *base
			if err := n.Acc.AddLeaf(ctx, &g); err != nil {
				w.violate("C04", "genuine", "valid-vertex-refused", n.Idx, "%v", err)
				continue
			}
		}
		m := muts[r.Intn(len(muts))]
		pv := &pb.Vertex{}
		roundTrip(gossip.VerifVertexToProto(base), pv)
		var po *pb.Vertex
		if other != nil {
			po = &pb.Vertex{}
			roundTrip(gossip.VerifVertexToProto(other), po)
		}
		if !m.apply(w, r, pv, po) {
			continue
		}
		// only decodable shapes travel: re-encode
		wire := &pb.Vertex{}
		if err := roundTrip(pv, wire); err != nil {
			w.probe("c04-mutant-not-encodable")
			continue
		}
		mv := gossip.VerifProtoToVertex(wire)
		if sameSigned(&mv, base) {
			continue
		}
		w.fault("corrupt:" + m.class)
		before := w.snapshot(n)
		res := ""
		func() {
			defer func() {
				if rr := recover(); rr != nil {
					res = "panic"
					w.onPanic(n, "AddLeaf", rr)
					w.violate("C04", "panic", m.class+":"+panicSite(fmt.Sprint(rr)), n.Idx, "%v", rr)
				}
			}()
			cp := mv
			if err := n.Acc.AddLeaf(ctx, &cp); err != nil {
				res = "rejected"
			} else {
				res = "admitted"
			}
		}()
		after := w.snapshot(n)
		if len(samples) < 8 {
			samples = append(samples, fmt.Sprintf("%s (contract=%v, genuine first=%v) -> %s", m.class, contract, genuineFirst, res))
		}
		if res == "admitted" {
			w.violate("C04", "admitted", m.class, n.Idx, "mutated copy of vertex %s accepted by the gossip-add entry point", hx(base.Hash))
		}
		if before != nil && after != nil && res == "rejected" {
			// the orphan buffer may hold it (unknown parents are parked, not admitted); the ledger proper must not change
			d0, d1 := *before, *after
			d0.Parked, d1.Parked = nil, nil
			if snapDigest(&d0) != snapDigest(&d1) && !w.admittedMeanwhile(before, after, mv.Hash) {
				w.violate("C04", "changed", "rejected-mutant-changed-ledger:"+m.class, n.Idx, "%s", snapDiff(before, after))
			}
		}
		w.Mutants = append(w.Mutants, mutantRec{V: mv, Class: m.class})
		if !genuineFirst && r.Chance(0.5) && res != "admitted" {
			// the genuine copy arrives afterwards and must still be admitted (unless the mutant took its place in the orphan buffer)
			g := *base
			err := n.Acc.AddLeaf(ctx, &g)
			w.probe("c04-genuine-after-mutant")
			if err != nil && res == "rejected" && m.class != "flip:left-parent" && m.class != "flip:right-parent" && m.class != "swap:parents" {
				w.violate("C04", "genuine", "valid-vertex-refused-after-its-mutant:"+m.class, n.Idx, "%v", err)
			}
		}
		if a%5 == 4 {
			simrt.SleepFor(3 * time.Second) // let orphan retries run
			w.observe()
		}
	}
	simrt.SleepFor(5 * time.Second)
	w.observe()
	w.checkMutantsAbsent()
	w.addressChecks(r)
	w.tamperedSync(r)
	rec.Nontrivial = len(w.Mutants) > 0
	rec.Sample = samples
}

// tamperedSync offers altered vertices through the other way a vertex reaches a node: the DAG stream a
// joining node loads from a peer. One streamed vertex is altered in transit (amount, data or the sealing
// signature, everything else as sealed); the joiner must not end up holding it.
func (w *World) tamperedSync(r *prng) {
	src := w.Nodes[0]
	ss := w.snapshot(src)
	if ss == nil || len(ss.Live) < 2 || len(ss.Stored) > 0 {
		return
	}
	if !w.waitQuiet(30 * time.Second) {
		return
	}
	kind := []string{"tampered-amount", "tampered-data", "tampered-signature"}[r.Intn(3)]
	sf := &StreamFault{Kind: kind, Index: r.Intn(len(ss.Live))}
	w.Net.StreamFault = sf
	j := w.addNode()
	err := w.joinNode(j.Idx, src.Idx)
	if len(w.stuck) > 0 || !sf.fired || sf.tampered == nil {
		return
	}
	w.probe("c04-altered-vertex-offered-by-sync")
	w.fault("corruption:sync:" + kind)
	js := w.snapshot(j)
	if js == nil {
		return
	}
	var th Hash
	copy(th[:], sf.tampered.Hash)
	if sv := js.get(th); sv != nil && (js.Loaded || j.Book.DagLoaded()) {
		w.violate("C04", "admitted", "sync:"+kind, j.Idx, "altered copy of vertex %s is in the ledger the node loaded from its peer (join error: %v)", hx(th), err)
	}
}

type mutantRec struct {
	V     accountant.Vertex
	Class string
}

// admittedMeanwhile: the only tolerated change is the admission of other (valid) vertices.
func (w *World) admittedMeanwhile(a, b *Snap, mutant Hash) bool {
	for h := range b.Live {
		if _, was := a.Live[h]; !was && h != mutant {
			return true
		}
	}
	return false
}

// checkMutantsAbsent: no ledger may hold the content of a mutant.
func (w *World) checkMutantsAbsent() {
	for _, n := range w.Nodes {
		s := w.snapshot(n)
		if s == nil {
			continue
		}
		for _, m := range w.Mutants {
			if sv := s.get(m.V.Hash); sv != nil && sameSigned(&sv.V, &m.V) {
				w.violate("C04", "admitted", m.Class, n.Idx, "mutant %s is in the ledger", hx(m.V.Hash))
			}
			for _, sv := range s.Live {
				if sv.V.Transaction.Hash == m.V.Transaction.Hash && sameTrx(&sv.V.Transaction, &m.V.Transaction) && !refTrxOK(&sv.V.Transaction) {
					w.violate("C04", "admitted", m.Class, n.Idx, "mutated transaction %s is in the ledger", hx(m.V.Transaction.Hash))
				}
			}
		}
	}
}

// addressChecks: wallet addresses are self-checking.
func (w *World) addressChecks(r *prng) {
	ver := wallet.NewVerifier()
	for _, wl := range w.Wallets {
		addr := wl.Address()
		try := func(kind, a string) {
			var key []byte
			var err error
			pn := ""
			func() {
				defer func() {
					if rr := recover(); rr != nil {
						pn = fmt.Sprint(rr)
					}
				}()
				key, err = ver.AddressToPubKey(a)
				if err == nil {
					// whoever resolves an address goes on to verify with the key
					_ = ver.Verify([]byte("m"), make([]byte, 64), sha256.Sum256([]byte("m")), a)
				}
			}()
			w.probe("c04-address-cases")
			switch {
			case pn != "":
				w.violate("C04", "address", "corrupted-address-panics:"+kind, -1, "%s: %s", a, pn)
			case err == nil && a != addr && len(key) != 32:
				w.violate("C04", "address", "address-resolves-to-malformed-key:"+kind, -1, "%s -> key of %d bytes", a, len(key))
			case err == nil && a != addr && string(key) != string(wl.Public):
				w.violate("C04", "address", "corrupted-address-resolves-to-other-key:"+kind, -1, "%s", a)
			}
		}
		b := []byte(addr)
		for k := 0; k < 20; k++ {
			c := append([]byte{}, b...)
			i := r.Intn(len(c))
			c[i] = "123456789ABCDEFGHJKLMNPQRSTUVWXYZabcdefghijkmnopqrstuvwxyz"[r.Intn(58)]
			try("one-character", string(c))
		}
		for i := 0; i+1 < len(b); i += 1 + r.Intn(5) {
			c := append([]byte{}, b...)
			c[i], c[i+1] = c[i+1], c[i]
			try("transposition", string(c))
		}
		for i := 0; i < len(b); i += 1 + r.Intn(4) {
			c := append([]byte{}, b...)
			if c[i] >= 'a' && c[i] <= 'z' {
				c[i] -= 32
			} else if c[i] >= 'A' && c[i] <= 'Z' {
				c[i] += 32
			}
			try("case-change", string(c))
		}
		try("truncated", addr[:len(addr)-1])
		try("extended", addr+"1")
		try("empty", "")
		// checksum-valid encodings of a key of the wrong length
		for _, kl := range []int{0, 1, 31, 33, 64} {
			body := append([]byte{0}, r.Bytes(kl)...)
			raw := append(body, checksum4(body)...)
			try(fmt.Sprintf("checksum-valid-key-of-%d-bytes", kl), base58.Encode(raw))
		}
	}
}

func init() {
	scenarios["tamper"] = tamperScenario
	generators["C04"] = func(r *prng, seed uint64, tier string) *Plan {
		cfg := Config{Nodes: 1 + r.Intn(2), Wallets: 3 + r.Intn(2), SupplyCur: uint64(100 + r.Intn(1000)), LatMinMS: 2, LatJitMS: 20, DataSize: 2048, StreamBuf: 4, SettleMS: 500, Direct: true}
		return &Plan{Scenario: "tamper", Cfg: cfg}
	}
	nontrivialRule["C04"] = "one evaluation = one seeded run on 1-2 real nodes: 12-21 corruption faults, each a mutation (class drawn from the catalogue of 41: bit flips per field, resizes, byte moves across signed field boundaries, swaps between two valid vertices, replaced addresses/signatures, stripped countersignature) of a freshly built valid vertex, delivered to the gossip-add entry point with the genuine copy before, after or never; plus ~60 corrupted addresses per wallet. distinct = trace hash; non-trivial = at least one mutant was delivered"
}
