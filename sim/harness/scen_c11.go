package harness

import (
	"context"
	"fmt"
	"sort"
	"time"

	"google.golang.org/protobuf/proto"

	"github.com/bartossh/Computantis/src/cache"
	pb "github.com/bartossh/Computantis/src/protobufcompiled"
	"github.com/bartossh/Computantis/src/spice"
	"github.com/bartossh/Computantis/src/transaction"
	"verif.local/simrt"
)

// C11 / C12: dissemination in a virtual network of real gossip services.

type gossipItem struct {
	hash      Hash
	kind      string // vertex | trx
	origin    int
	coOrigins []int
	at        int64
	netFrom   int // index into Net.Log where this item's traffic starts
	dependent bool
}

func (w *World) degreeSum() int {
	sum := 0
	for _, n := range w.Nodes {
		if n.Alive {
			sum += len(n.Goss.Peers())
		}
	}
	return sum
}

// waitQuiet parks until the network is silent and nothing is parked anywhere (or the budget ends).
func (w *World) waitQuiet(budget time.Duration) bool {
	deadline := simrt.Now() + int64(budget)
	calm := 0
	for simrt.Now() < deadline {
		simrt.SleepFor(20 * time.Millisecond)
		busy := !w.Net.quiet()
		for _, o := range w.pending {
			if !o.res.Done {
				busy = true
			}
		}
		if busy {
			calm = 0
			continue
		}
		calm++
		if calm >= 10 {
			parked := false
			for _, n := range w.Nodes {
				if s := w.snapshot(n); s != nil && len(s.Parked) > 0 {
					parked = true
				}
			}
			if !parked {
				return true
			}
			calm = 0
			simrt.SleepFor(500 * time.Millisecond)
		}
	}
	return false
}

func (w *World) issueItem(k int, r *prng, origin *Node, kind string, dependent bool) *gossipItem {
	it := &gossipItem{kind: kind, origin: origin.Idx, at: simrt.Now(), netFrom: len(w.Net.Log), dependent: dependent}
	ctx := context.Background()
	switch kind {
	case "vertex":
		t, err := transaction.New("pay", spice.Melange{SupplementaryCurrency: uint64(1 + r.Intn(1000))}, nil, w.WAddr[1+r.Intn(len(w.WAddr)-1)], w.Wallets[0])
		if err != nil {
			return nil
		}
		var res StepResult
		if err := w.propose(ctx, origin, &t, "ledger", &res); err != nil || !res.HasVrx {
			w.probe("c11-origin-refused")
			return nil
		}
		it.hash = res.Vertex
	default:
		from := r.Intn(len(w.Wallets))
		to := (from + 1 + r.Intn(len(w.Wallets)-1)) % len(w.Wallets)
		t, err := transaction.New("contract", spice.Melange{}, r.Bytes(1+r.Intn(30)), w.WAddr[to], w.Wallets[from])
		if err != nil {
			return nil
		}
		pt, _ := protoOf(&t)
		var perr error
		w.asNode(origin, func() { _, perr = origin.Notary.Propose(ctx, pt) })
		if perr != nil {
			w.probe("c11-origin-refused")
			return nil
		}
		it.hash = t.Hash
	}
	simrt.Logf("item", "%d %s %s origin n%d", k, kind, hx(it.hash), origin.Idx)
	return it
}

// judgeItem checks the per-item claims of C11 over the network log and the per-node call log.
func (w *World) judgeItem(it *gossipItem, quiet bool, lossy bool, prop string) {
	flashLife := int64(20 * time.Second)
	_, fl := cache.VerifWindows()
	flashLife = int64(fl)
	viaHandler := map[int]bool{}  // node -> it admitted the item inside a GossipVrx delivery (the only path that forwards)
	admitted := map[int]int{}     // node -> successful admissions through the gossip/ledger entry points
	admittedAt := map[int]int64{} // node -> time of first success
	sawParentMissing := map[int]bool{}
	for _, c := range w.AccCalls {
		if c.Hash != it.hash {
			continue
		}
		ok := c.Err == ""
		switch {
		case it.kind == "vertex" && c.Op == "AddLeaf":
			if ok {
				admitted[c.Node]++
				if containsStr(c.Via, ":GossipVrx") {
					viaHandler[c.Node] = true
				}
				if _, has := admittedAt[c.Node]; !has {
					admittedAt[c.Node] = c.At
				}
			} else if len(c.Err) > 0 && containsStr(c.Err, "parent") {
				sawParentMissing[c.Node] = true
			}
		case it.kind == "trx" && c.Op == "SaveAwaited" && ok:
			admitted[c.Node]++
			if _, has := admittedAt[c.Node]; !has {
				admittedAt[c.Node] = c.At
			}
		}
	}
	admittedAt[it.origin] = it.at
	for _, o := range it.coOrigins {
		// the same item (equal hash) was also handed to another node directly: that node holds it as an origin
		admittedAt[o] = it.at
		admitted[o]++
	}
	for n, c := range admitted {
		if c > 1 && it.kind == "vertex" {
			w.violate(prop, "exactly-once", "vertex-admitted-twice-by-one-node", n, "item %s admitted %d times", hx(it.hash), c)
		}
	}
	// traffic
	sent := map[[2]int][]int64{}
	total := 0
	for _, m := range w.Net.Log[it.netFrom:] {
		if m.Item != it.hash || (m.Kind != "GossipVrx" && m.Kind != "GossipTrx") || m.From < 0 {
			continue
		}
		if m.Dup {
			continue
		}
		total++
		sent[[2]int{m.From, m.To}] = append(sent[[2]int{m.From, m.To}], m.At)
		if w.Byz[m.From] {
			continue // what a byzantine relay sends is arbitrary; the claims are about honest nodes
		}
		if at, ok := admittedAt[m.From]; !ok || m.At < at {
			w.violate(prop, "forward-after-accept", "node-forwards-item-it-has-not-accepted", m.From, "item %s sent to n%d at %d, accepted at %d (known=%v)", hx(it.hash), m.To, m.At, at, ok)
		}
		toAddr := w.Nodes[m.To].Addr
		for _, g := range m.Gossipers {
			if g == toAddr {
				w.violate(prop, "target", "item-sent-to-node-already-listed-as-gossiper", m.From, "item %s to n%d", hx(it.hash), m.To)
			}
		}
	}
	for k, ts := range sent {
		if it.kind == "vertex" && len(ts) > 1 {
			w.violate(prop, "forward-once", "vertex-forwarded-twice-over-one-link", k[0], "item %s n%d->n%d %d times", hx(it.hash), k[0], k[1], len(ts))
		}
		if it.kind == "trx" {
			sort.Slice(ts, func(i, j int) bool { return ts[i] < ts[j] })
			for i := 1; i < len(ts); i++ {
				if ts[i]-ts[i-1] < flashLife/2 {
					w.violate(prop, "forward-once", "transaction-forwarded-twice-within-suppression-window", k[0], "item %s n%d->n%d", hx(it.hash), k[0], k[1])
				}
			}
		}
	}
	if bound := w.degreeSum(); it.kind == "vertex" && total > bound {
		w.violate(prop, "termination", "more-messages-than-links", it.origin, "item %s: %d messages, sum of degrees %d", hx(it.hash), total, bound)
	}
	w.probe("c11-items-judged")
	if total >= 2 {
		w.probe("c11-item-travelled-two-hops")
	}
	if !quiet || lossy {
		return
	}
	// delivery: every node (C12: every honest node with an honest path to the origin) holds the item
	reach := w.honestReach(it.origin)
	for _, n := range w.Nodes {
		if !n.Alive || !reach[n.Idx] {
			continue
		}
		has := false
		if it.kind == "vertex" {
			if s := w.snapshot(n); s != nil {
				has = s.get(it.hash) != nil
			}
		} else {
			has = admitted[n.Idx] > 0 || n.Idx == it.origin || containsInt(it.coOrigins, n.Idx)
		}
		if has {
			continue
		}
		cause := "item-not-delivered-to-every-node"
		if w.Cfg.CtxCancelOnReturn && w.Faults["ctx-cancel"] > 0 {
			cause = "forward-lost-to-cancelled-request-context"
		}
		if it.dependent {
			// did a node on the way admit it through the orphan retry (which never forwards)?
			for _, o := range w.Nodes {
				if o.Idx == it.origin || !o.Alive {
					continue
				}
				if s := w.snapshot(o); s != nil && s.get(it.hash) != nil && !viaHandler[o.Idx] {
					cause = "admitted-via-retry-or-fetch-not-forwarded"
				}
			}
		}
		w.violate(prop, "not-delivered", cause, n.Idx, "item %s (%s) from n%d missing on n%d after the network went quiet", hx(it.hash), it.kind, it.origin, n.Idx)
	}
}

func containsStr(s, sub string) bool {
	for i := 0; i+len(sub) <= len(s); i++ {
		if s[i:i+len(sub)] == sub {
			return true
		}
	}
	return false
}

func gossipScenario(w *World, p *Plan, rec *Record) {
	if err := w.bootstrap(); err != nil {
		rec.Infra = "bootstrap: " + err.Error()
		return
	}
	prop := p.Property
	if prop != "C12" {
		prop = "C11"
	}
	r0 := newPRNG(p.Seed ^ 0xC11)
	rounds := 4 + r0.Intn(6)
	lossy := p.Cfg.DropP > 0
	dependentClass := p.Cfg.K == 1
	orders := &hasher{}
	var samples []string
	if prop == "C12" {
		w.installByzantineRelay(r0)
	}
	for k := 0; k < rounds && len(w.stuck) == 0; k++ {
		if !w.opEnabled(k) {
			continue
		}
		r := w.opRNG(k)
		w.stepIdx = k
		var items []*gossipItem
		norigins := 1
		if r.Chance(0.3) && !dependentClass {
			norigins = 2
		}
		used := map[int]bool{}
		for o := 0; o < norigins; o++ {
			origin := w.Nodes[r.Intn(len(w.Nodes))]
			if used[origin.Idx] || !origin.Alive {
				continue
			}
			used[origin.Idx] = true
			kind := "vertex"
			if r.Chance(0.3) {
				kind = "trx"
			}
			if it := w.issueItem(k, r, origin, kind, dependentClass); it != nil {
				merged := false
				for _, prev := range items {
					if prev.hash == it.hash {
						// two origins produced an item with the same hash in the same instant (a vertex digest
						// does not cover the sealing node): one item with two origins, not two items
						prev.coOrigins = append(prev.coOrigins, origin.Idx)
						w.probe("c11-two-origins-same-item-hash")
						merged = true
					}
				}
				if !merged {
					items = append(items, it)
				}
			}
			if dependentClass {
				// further vertices right behind it, before the first one has spread
				for d := 0; d < 1+r.Intn(2); d++ {
					simrt.SleepFor(time.Duration(r.Intn(5)) * time.Millisecond)
					if it := w.issueItem(k, r, origin, "vertex", true); it != nil {
						items = append(items, it)
					}
				}
			} else if kind == "trx" && r.Chance(0.35) {
				// a burst: more awaiting transactions from the same origin while the first is still being sent
				for d := 0; d < 1+r.Intn(2); d++ {
					simrt.SleepFor(time.Duration(r.Intn(3)) * time.Millisecond)
					if it := w.issueItem(k, r, origin, "trx", false); it != nil {
						items = append(items, it)
						w.probe("c11-transaction-burst-from-one-origin")
					}
				}
			}
		}
		quiet := w.waitQuiet(60 * time.Second)
		if !quiet {
			w.probe("c11-network-not-quiet-within-budget")
		}
		for _, it := range items {
			w.judgeItem(it, quiet, lossy, prop)
			if len(samples) < 8 {
				samples = append(samples, fmt.Sprintf("%s %s from n%d", it.kind, hx(it.hash), it.origin))
			}
			// delivery order signature of this flood (for the distinct-orders measure)
			for _, m := range w.Net.Log[it.netFrom:] {
				if m.Item == it.hash && m.Fate == "delivered" {
					orders.add([]byte(fmt.Sprintf("%d>%d", m.From, m.To)))
				}
			}
		}
		w.observe()
	}
	simrt.Logf("orders", "%s", orders.String())
	rec.Nontrivial = w.Probes["c11-item-travelled-two-hops"] > 0
	topo := "complete"
	if len(p.Cfg.Topology) > 0 {
		topo = fmt.Sprint(p.Cfg.Topology)
	}
	rec.Sample = map[string]any{"nodes": len(w.Nodes), "topology": topo, "items": samples, "delivery_order_signature": orders.String(), "dependent_items": dependentClass}
	_ = proto.Marshal
	_ = pb.File_gossip_proto
}

func init() {
	scenarios["gossip"] = gossipScenario
	generators["C11"] = func(r *prng, seed uint64, tier string) *Plan {
		n := 2 + r.Intn(3)
		if r.Chance(0.15) {
			n = 5 + r.Intn(2)
		}
		cfg := Config{Nodes: n, Wallets: 3, SupplyCur: 1000, LatMinMS: 1 + r.Intn(10), LatJitMS: r.Intn(80), DataSize: 2048, StreamBuf: 4, SettleMS: 500, Direct: true}
		cfg.Topology = connectedTopology(r, n)
		cfg.DupP = []float64{0, 0.1, 0.4}[r.Intn(3)]
		cfg.SpikeP = []float64{0, 0.1, 0.3}[r.Intn(3)]
		if r.Chance(0.15) {
			cfg.DropP = 0.1 // loss: only the safety half is judged
		}
		if r.Chance(0.3) {
			// handlers of one node run concurrently (as gRPC runs them) and may be preempted inside
			cfg.PreemptP = []float64{0.05, 0.2, 0.5}[r.Intn(3)]
			cfg.Spread = 1 + r.Intn(4)
		}
		if seed%6 == 0 {
			cfg.K = 1 // dependent items in flight (separate scenario class)
		}
		if seed%6 == 3 {
			// request contexts behave as under grpc-go: cancelled as soon as the handler returns
			cfg.CtxCancelOnReturn = true
		}
		return &Plan{Scenario: "gossip", Cfg: cfg}
	}
	nontrivialRule["C11"] = "one evaluation = one seeded run: a connected topology on 2-6 real nodes (labelled graphs on <=4 nodes are drawn uniformly by edge mask), 4-9 rounds; each round one or two origins inject a vertex (parents admitted everywhere) or an awaiting transaction, the network runs to quiescence under seeded delay, reordering and duplication, then the item is judged (exactly-once admission, forward-after-accept, forward-once, no send to listed gossipers, message bound, delivery); non-trivial = some item travelled at least two hops; distinct = trace hash (includes the delivery-order signature)"
}

// honestReach: nodes connected to origin through honest nodes only (all nodes when nobody is byzantine;
// a byzantine origin reaches its honest neighbours and everything behind them).
func (w *World) honestReach(origin int) map[int]bool {
	adj := map[int][]int{}
	idxOf := map[string]int{}
	for _, n := range w.Nodes {
		idxOf[n.Addr] = n.Idx
	}
	for _, n := range w.Nodes {
		if !n.Alive {
			continue
		}
		for addr := range n.Goss.Peers() {
			if j, ok := idxOf[addr]; ok {
				adj[n.Idx] = append(adj[n.Idx], j)
			}
		}
	}
	seen := map[int]bool{origin: true}
	q := []int{origin}
	for len(q) > 0 {
		x := q[0]
		q = q[1:]
		if w.Byz[x] && x != origin {
			continue
		}
		for _, y := range adj[x] {
			if !seen[y] {
				seen[y] = true
				q = append(q, y)
			}
		}
	}
	out := map[int]bool{}
	for k := range seen {
		if !w.Byz[k] || k == origin {
			out[k] = true
		}
	}
	return out
}

func init() {
	generators["C12"] = func(r *prng, seed uint64, tier string) *Plan {
		p := generators["C11"](r, seed|1, tier) // never the dependent-items class
		p.Cfg.K = 0
		p.Cfg.DropP = 0
		if p.Cfg.Nodes < 3 {
			p.Cfg.Nodes = 3
			p.Cfg.Topology = connectedTopology(r, 3)
		}
		return p
	}
	nontrivialRule["C12"] = "one evaluation = one seeded run of the C11 network with one byzantine relay whose outgoing gossip gets forged gossiper entries (class drawn per run: garbage, honest address with bad signature, valid signatures lifted from other items, own signature under honest addresses, the target itself, all of the target's neighbours, duplicates; or a worthless message naming the item's hash sent to the target ahead of the item); every item is judged as in C11, delivery is required for honest nodes with an honest path to the origin; non-trivial = an item travelled two hops and the relay forged at least one list; distinct = trace hash"
}

func containsInt(xs []int, x int) bool {
	for _, y := range xs {
		if y == x {
			return true
		}
	}
	return false
}
