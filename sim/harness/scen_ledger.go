package harness

import (
	"fmt"
	"github.com/bartossh/Computantis/src/transaction"
	"strings"

	"verif.local/simrt"
)

// ledgerScenario is the common net-sim skeleton: bootstrap, steps with snapshots and
// oracles after each, settle, quiescent oracles.
func ledgerScenario(w *World, p *Plan, rec *Record) {
	w.Results = make([]StepResult, len(p.Steps))
	w.Trxs = make([]*transaction.Transaction, len(p.Steps))
	if err := w.bootstrap(); err != nil {
		rec.Infra = "bootstrap: " + err.Error()
		return
	}
	w.observe()
	for i := range p.Steps {
		if len(w.stuck) > 0 {
			// an operation did not return: the node is wedged; nothing more is asked of it
			w.probe("plan-aborted-after-wedge")
			break
		}
		w.execStep(i, &p.Steps[i])
		simrt.Logf("step", "%d %s n%d err=%s", i, p.Steps[i].Op, p.Steps[i].Node, shortErr(w.Results[i].Err))
	}
	w.stepIdx = len(p.Steps)
	// faults stop here
	w.Net.cut = map[[2]int]bool{}
	w.Cfg.DropP, w.Cfg.DupP, w.Cfg.SpikeP = 0, 0, 0
	if len(w.stuck) == 0 {
		w.settle()
		w.waitOps(opBudget)
	}
	for _, o := range w.stuck {
		if !o.res.Done {
			w.violate("C08", "no-return", opKind(o.name), o.node, "operation %s did not return", o.name)
		}
	}
	if len(w.stuck) == 0 {
		snaps := w.observe()
		for _, n := range w.Nodes {
			if s := snaps[n.Idx]; s != nil {
				w.oracleC02(s)
			}
		}
		w.finalProbes(snaps)
	}
	w.checkFatal(false)
	rec.Nontrivial = w.Probes["c01-confirmed-transfer-checked"] > 0
}

func opKind(name string) string {
	for i := 0; i < len(name); i++ {
		if name[i] == ':' {
			k := name[i+1:]
			for j := 0; j < len(k); j++ {
				if k[j] == '#' {
					return k[:j]
				}
			}
			if j := strings.Index(k, "-cancel-after-"); j >= 0 {
				return "cancelled:" + k[:j]
			}
			if j := strings.Index(k, "<-n"); j >= 0 {
				return k[:j] // sync<-n0, sync<-n1: one kind
			}
			return k
		}
	}
	return name
}

// finalProbes runs the read-side oracles once on every node at quiescence and checks that
// nothing is left wedged: every node must still answer.
func (w *World) finalProbes(snaps map[int]*Snap) {
	for _, n := range w.Nodes {
		if !n.Alive || snaps[n.Idx] == nil {
			continue
		}
		w.probeBalances(n, w.extraAddrs())
	}
	// cross-node agreement: nodes holding the same vertex split answer identically (C06)
	type key struct{ d string }
	groups := map[string][]int{}
	// node order and group order are fixed: the queries below pass preemption points, whose
	// effect must not depend on Go's map iteration order
	for idx := 0; idx < len(w.Nodes); idx++ {
		if s := snaps[idx]; s != nil && s.Loaded && len(s.Leaves) == 1 {
			groups[vertexSetDigest(s)] = append(groups[vertexSetDigest(s)], idx)
		}
	}
	var gkeys []string
	for k := range groups {
		gkeys = append(gkeys, k)
	}
	sortStrings(gkeys)
	for _, gk := range gkeys {
		g := groups[gk]
		if len(g) < 2 {
			continue
		}
		// the comparison is meaningful only while the ledgers stand still
		moved := false
		for _, idx := range g {
			s2 := w.snapshot(w.Nodes[idx])
			if s2 == nil || snapDigest(s2) != snapDigest(snaps[idx]) || len(s2.Parked) > 0 {
				moved = true
			}
		}
		if moved {
			w.probe("c06-cross-node-not-judged-ledger-moving")
			continue
		}
		tainted := false
		for _, idx := range g {
			if st := w.nstate(idx); len(st.tainted) > 0 || len(st.gross) > 0 {
				tainted = true
			}
		}
		if tainted {
			// a clamped checkpoint depends on where each node happened to cut (known finding, reported
			// by C01/C02/C07 under its own cause); equal vertex sets then no longer imply equal answers
			w.probe("c06-cross-node-not-judged-checkpoint-tainted")
			continue
		}
		w.probe("c06-cross-node-groups")
		for _, a := range w.WAddr {
			var first string
			for k, idx := range g {
				b, err := w.Nodes[idx].Book.CalculateBalance(w.ctx, a)
				v := "err"
				if err == nil {
					v = melVal(b.Spice).String()
				}
				if k == 0 {
					first = v
				} else if v != first {
					if s2 := w.snapshot(w.Nodes[idx]); s2 == nil || snapDigest(s2) != snapDigest(snaps[idx]) {
						continue
					}
					w.violate("C06", "cross-node", "nodes-with-equal-ledgers-report-different-balances", idx, "address %s: %s vs %s", a[:8], first, v)
				}
			}
		}
	}
	_ = fmt.Sprint
}

func vertexSetDigest(s *Snap) string {
	h := &hasher{}
	var live, stored []string
	for k := range s.Live {
		live = append(live, string(k[:]))
	}
	for k := range s.Stored {
		stored = append(stored, string(k[:]))
	}
	sortStrings(live)
	sortStrings(stored)
	for _, k := range live {
		h.add([]byte(k))
	}
	h.add([]byte("|"))
	for _, k := range stored {
		h.add([]byte(k))
	}
	return h.String()
}

func init() { scenarios["ledger"] = ledgerScenario }

// checkFatal: a node whose background loop logged a fatal error would have exited (the
// harness logger records instead). After an injected storage error that is fail-stop
// behaviour and only counted; otherwise the node was taken down by ordinary ledger traffic.
func (w *World) checkFatal(storageFault bool) {
	for _, n := range w.Nodes {
		if n.Log != nil && n.Log.Truncs > 0 {
			w.Probes["c07-weight-triggered-truncation-finished"] += int64(n.Log.Truncs)
		}
		if n.Log != nil && len(n.Log.Fatals) > 0 {
			w.note("n%d would have crashed: %s", n.Idx, n.Log.Fatals[0])
			w.probe("node-fatal-log")
			if storageFault {
				w.probe("node-fatal-after-injected-storage-error")
				continue
			}
			if w.truncFailed[n.Idx] {
				w.probe("node-fatal-after-failed-synchronous-truncation")
				continue
			}
			w.violate("C08", "fatal", "background-loop-terminates-node", n.Idx, "%s", shortErr(n.Log.Fatals[0]))
		}
	}
}
