package harness

import (
	"context"
	"fmt"
	"strings"
	"time"

	"github.com/bartossh/Computantis/src/accountant"
	"github.com/bartossh/Computantis/src/gossip"
	pb "github.com/bartossh/Computantis/src/protobufcompiled"
	"github.com/bartossh/Computantis/src/spice"
	"github.com/bartossh/Computantis/src/transaction"
	"github.com/bartossh/Computantis/src/transformers"
	"github.com/bartossh/Computantis/src/wallet"
	"verif.local/simrt"
)

// opBudget is how long (fake time) an operation may take once no fault is active before
// it counts as not returning.
const opBudget = 120 * time.Second

type opHandle struct {
	name string
	res  *StepResult
	node int
}

// spawnOp runs f as a client/peer task against node n.
func (w *World) spawnOp(name string, n *Node, res *StepResult, f func(ctx context.Context) error) {
	res.Started = simrt.Now()
	w.pending = append(w.pending, &opHandle{name: name, res: res, node: n.Idx})
	simrt.GoNamed(name, func() {
		if t := simrt.Me(); t != nil {
			t.Label = n.URL
		}
		defer func() {
			if r := recover(); r != nil {
				res.Panic = fmt.Sprint(r)
				w.onPanic(n, name, r)
			}
			res.Ended = simrt.Now()
			res.Done = true
		}()
		ctx, cancel := context.WithCancel(n.ctx)
		defer func() {
			if w.Cfg.CtxCancelOnReturn {
				cancel()
			}
		}()
		if err := f(ctx); err != nil {
			res.Err = err.Error()
		}
	})
}

// waitOps parks root until all pending operations are done or the budget is exceeded.
func (w *World) waitOps(budget time.Duration) bool {
	deadline := simrt.Now() + int64(budget)
	for {
		all := true
		for _, o := range w.pending {
			if !o.res.Done {
				all = false
			}
		}
		if all {
			w.pending = w.pending[:0]
			return true
		}
		if simrt.Now() > deadline {
			var left []*opHandle
			for _, o := range w.pending {
				if !o.res.Done {
					left = append(left, o)
				}
			}
			w.stuck = append(w.stuck, left...)
			w.pending = w.pending[:0]
			return false
		}
		simrt.SleepFor(time.Millisecond)
	}
}

func (w *World) walletOf(idx int) *wallet.Wallet {
	if idx < 0 {
		k := -idx - 1
		if k < len(w.Nodes) {
			return w.Nodes[k].W
		}
		return w.Nodes[0].W
	}
	return w.Wallets[idx%len(w.Wallets)]
}

func (w *World) newTrx(s *Step) (transaction.Transaction, error) {
	iss := w.walletOf(s.From)
	rcv := w.walletOf(s.To)
	var data []byte
	if s.Data > 0 {
		data = w.rng.Bytes(s.Data)
	}
	subj := "transfer"
	if s.Data > 0 {
		subj = "contract"
	}
	trx, err := transaction.New(subj, spice.Melange{Currency: s.Cur, SupplementaryCurrency: s.Sup}, data, rcv.Address(), iss)
	if err != nil || s.ToText == "" {
		return trx, err
	}
	// a receiver address is free text for the ledger (only the client library insists on a minimum length):
	// re-address the transaction and sign it again as its issuer
	trx.ReceiverAddress = w.textAddress(s.ToText)
	if !containsString(w.TextAddrs, trx.ReceiverAddress) {
		w.TextAddrs = append(w.TextAddrs, trx.ReceiverAddress) // probed like any wallet's balance from now on
	}
	w.probe("free-text-receiver:" + s.ToText)
	trx.Hash, trx.IssuerSignature = iss.Sign(trx.GetMessage())
	return trx, nil
}

// textAddress maps the token of a step to the receiver text it stands for.
func (w *World) textAddress(tok string) string {
	switch tok {
	case "b32":
		return "abcdefghijklmnopqrstuvwxyz012345" // as long as a vertex hash
	case "empty":
		return ""
	case "lastvertex":
		return "last_vertex" // a bookkeeping key of the vertex store
	case "vhash":
		return string(w.GenesisVertex.Hash[:]) // the raw bytes of a vertex hash (direct ledger API only: not valid UTF-8 on the wire)
	case "huge":
		return strings.Repeat("x", 66000) // longer than the store accepts as a key
	}
	return tok
}

func containsString(xs []string, x string) bool {
	for _, y := range xs {
		if y == x {
			return true
		}
	}
	return false
}

// snapshot takes a snapshot of node n (retrying while the ledger lock is held).
func (w *World) snapshot(n *Node) *Snap {
	if !n.Alive {
		return nil
	}
	for i := 0; i < 2000; i++ {
		r, err := n.Book.VerifSnapshot()
		if err == nil {
			return convertSnap(n.Idx, r)
		}
		if err != accountant.ErrVerifBusy {
			w.note("snapshot n%d: %v", n.Idx, err)
			return nil
		}
		simrt.SleepFor(5 * time.Millisecond)
	}
	w.probe("snapshot-lock-never-free")
	return nil
}

// observe snapshots every live node and runs the snapshot oracles.
func (w *World) observe() map[int]*Snap {
	out := map[int]*Snap{}
	for _, n := range w.Nodes {
		if !n.Alive {
			continue
		}
		s := w.snapshot(n)
		if s == nil {
			continue
		}
		for _, sv := range s.Live {
			w.Archive.addVertex(&sv.V, "snapshot")
		}
		w.checkSnap(s)
		out[n.Idx] = s
	}
	return out
}

// bootstrap starts the network: genesis on node 0, the others sync and discover.
func (w *World) bootstrap() error {
	gossip.VerifDialHook = w.dialHook
	gossip.VerifCloseHook = w.closeHook
	w.applyKnobs()
	if err := w.startNode(0); err != nil {
		return err
	}
	n0 := w.Nodes[0]
	gv, err := n0.Book.CreateGenesis("Genesis Vertex", spice.New(w.Supply.Currency, w.Supply.SupplementaryCurrency), []byte{}, w.WAddr[w.GenesisReceiver])
	if err != nil {
		return fmt.Errorf("genesis: %w", err)
	}
	n0.Loaded = true
	w.Archive.addVertex(&gv, "genesis")
	w.GenesisVertex = gv
	for i := 1; i < len(w.Nodes); i++ {
		if err := w.joinNode(i, 0); err != nil {
			return err
		}
	}
	if len(w.Cfg.Topology) > 0 {
		// replace the complete graph built by discovery with the requested links
		for _, n := range w.Nodes {
			var addrs []string
			for addr := range n.Goss.Peers() {
				addrs = append(addrs, addr)
			}
			sortStrings(addrs)
			for _, addr := range addrs {
				n.Goss.RemovePeer(addr)
			}
		}
		for _, l := range w.Cfg.Topology {
			a, b := w.Nodes[l[0]], w.Nodes[l[1]]
			w.asNode(a, func() { a.Goss.SetPeer(b.Addr, b.URL) })
			w.asNode(b, func() { b.Goss.SetPeer(a.Addr, a.URL) })
		}
	}
	for _, t := range w.Cfg.Trusted {
		for _, n := range w.Nodes {
			if t < len(w.Nodes) {
				n.Book.AddTrustedNode(w.Nodes[t].Addr)
			}
		}
	}
	return nil
}

func (w *World) asNode(n *Node, f func()) {
	t := simrt.Me()
	old := ""
	if t != nil {
		old = t.Label
		t.Label = n.URL
	}
	f()
	if t != nil {
		t.Label = old
	}
}

// joinNode starts node i, syncs it from node `from` through the real sync path and joins
// the network through the real discovery calls. The blocking parts run in their own task
// so that a wedged peer cannot wedge the root task.
func (w *World) joinNode(i, from int) error {
	if err := w.startNode(i); err != nil {
		return err
	}
	n := w.Nodes[i]
	src := w.Nodes[from]
	var r StepResult
	w.spawnOp(fmt.Sprintf("n%d:sync<-n%d", i, from), n, &r, func(ctx context.Context) error {
		if err := n.Goss.UpdateDag(n.ctx, src.URL); err != nil {
			return fmt.Errorf("updateDag: %w", err)
		}
		// LoadDag runs asynchronously inside the ledger: wait for the loaded flag
		for k := 0; k < 20000 && !n.Book.DagLoaded(); k++ {
			simrt.SleepFor(time.Millisecond)
		}
		if !n.Book.DagLoaded() {
			return fmt.Errorf("ledger did not report loaded")
		}
		return nil
	})
	if !w.waitOps(opBudget) {
		w.syncStuck = append(w.syncStuck, [2]int{i, from})
		return fmt.Errorf("sync n%d<-n%d did not return within %v", i, from, opBudget)
	}
	if r.Panic != "" {
		return fmt.Errorf("sync n%d<-n%d: node crashed: %s", i, from, r.Panic)
	}
	if r.Err != "" {
		return fmt.Errorf("sync n%d<-n%d: %s", i, from, r.Err)
	}
	n.Loaded = true
	if s := w.snapshot(n); s != nil {
		st := w.nstate(i)
		for h := range s.Live {
			st.baseline[h] = true
		}
		for h := range s.Stored {
			st.baseline[h] = true
		}
	}
	var r2 StepResult
	w.spawnOp(fmt.Sprintf("n%d:join", i), n, &r2, func(ctx context.Context) error {
		return n.Goss.Join(n.ctx, w.Nodes[0].URL)
	})
	if !w.waitOps(opBudget) {
		return fmt.Errorf("join n%d did not return within %v", i, opBudget)
	}
	if r2.Err != "" {
		return fmt.Errorf("join n%d: %s", i, r2.Err)
	}
	return nil
}

func protoOf(trx *transaction.Transaction) (*pb.Transaction, error) {
	p, err := transformers.TrxToProtoTrx(*trx)
	if err != nil {
		return nil, err
	}
	out := &pb.Transaction{}
	if err := roundTrip(p, out); err != nil {
		return nil, err
	}
	return out, nil
}

// propose submits trx to node n through the notary API or the ledger API.
func (w *World) propose(ctx context.Context, n *Node, trx *transaction.Transaction, via string, res *StepResult) error {
	res.Trx = trx.Hash
	switch via {
	case "ledger":
		v, err := n.Acc.CreateLeaf(ctx, trx)
		if err != nil {
			return err
		}
		res.Vertex, res.HasVrx = v.Hash, true
		if !n.Pipe.SendVrx(&v) {
			return fmt.Errorf("pipe closed")
		}
		return nil
	default:
		p, err := protoOf(trx)
		if err != nil {
			return err
		}
		_, err = n.Notary.Propose(ctx, p)
		return err
	}
}
