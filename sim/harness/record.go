package harness

import (
	"crypto/sha256"
	"encoding/hex"
	"fmt"
	"os"
	"runtime/debug"
	"sort"
	"testing"
	"testing/cryptotest"
	"testing/synctest"
	"time"

	"verif.local/simrt"
)

// Record is the outcome of one simulated run.
type Record struct {
	Seed       uint64           `json:"seed"`
	Property   string           `json:"property"`
	Scenario   string           `json:"scenario"`
	Trace      string           `json:"trace_hash"`
	Violations []Violation      `json:"violations,omitempty"`
	Probes     map[string]int64 `json:"probes,omitempty"`
	Faults     map[string]int64 `json:"faults,omitempty"`
	SimNS      int64            `json:"sim_ns"`
	WallMS     float64          `json:"wall_ms"`
	Steps      int              `json:"steps"`
	Events     int              `json:"events"`
	Tasks      int              `json:"tasks"`
	Shapes     []string         `json:"shapes,omitempty"`
	Nontrivial bool             `json:"nontrivial"`
	Leaks      []string         `json:"leaks,omitempty"`
	Notes      []string         `json:"notes,omitempty"`
	Infra      string           `json:"infra,omitempty"` // set when the run could not be carried out (not a verdict)
	Plan       *Plan            `json:"plan,omitempty"`
	Log        []string         `json:"log,omitempty"`
	Sched      map[string]int64 `json:"sched,omitempty"`
	NetMsgs    int              `json:"net_msgs"`
	Sample     any              `json:"sample,omitempty"`
	Ops        int              `json:"ops,omitempty"` // scenario-generated operations (minimised through cfg.op_skip)
}

// scenario is a complete run body executed inside the bubble by the root task.
type scenario func(w *World, p *Plan, rec *Record)

var scenarios = map[string]scenario{}

// RunPlan executes one plan in its own bubble.
func RunPlan(t *testing.T, p *Plan, wantLog bool) *Record {
	rec := &Record{}
	RunPlanInto(t, p, wantLog, rec)
	return rec
}

// RunPlanInto fills rec; the record is complete even if the test framework aborts the calling
// subtest afterwards (a -race build fails a test in which the detector reported something).
func RunPlanInto(t *testing.T, p *Plan, wantLog bool, rec *Record) *Record {
	*rec = Record{Seed: p.Seed, Property: p.Property, Scenario: p.Scenario, Steps: len(p.Steps)}
	start := time.Now()
	defer func() { rec.WallMS = float64(time.Since(start).Microseconds()) / 1000 }()
	cryptotest.SetGlobalRandom(t, p.Seed)
	body, ok := scenarios[p.Scenario]
	if !ok {
		rec.Infra = "unknown scenario " + p.Scenario
		return rec
	}
	func() {
		defer func() {
			if r := recover(); r != nil {
				msg := fmt.Sprint(r)
				if len(msg) >= 8 && msg[:8] == "deadlock" {
					rec.Notes = append(rec.Notes, "bubble ended with blocked goroutines")
					return
				}
				rec.Infra = "panic in harness: " + msg
			}
		}()
		synctest.Test(t, func(t *testing.T) {
			simrt.Start(p.Seed, p.Cfg.PreemptP, p.Cfg.Spread)
			simrt.S.Sites = map[string]int{}
			simrt.S.ChanCap = p.Cfg.ChanCap
			w := NewWorld(p.Seed, p.Cfg)
			func() {
				defer func() {
					if r := recover(); r != nil {
						rec.Infra = fmt.Sprintf("panic in scenario: %v", r)
						if os.Getenv("SIM_PANIC_STACK") != "" {
							rec.Infra += "\n" + string(debug.Stack())
						}
					}
				}()
				body(w, p, rec)
			}()
			w.teardown(rec)
			finishRecord(w, rec, wantLog)
			simrt.Stop()
		})
	}()
	rec.WallMS = float64(time.Since(start).Microseconds()) / 1000
	return rec
}

// teardown stops every node and waits (fake time) for background goroutines to exit.
func (w *World) teardown(rec *Record) {
	rec.SimNS = simrt.Now()
	simrt.S.Stopping = true
	for _, n := range w.Nodes {
		if n.Alive {
			w.stopNode(n.Idx)
		}
	}
	w.cancel()
	for _, st := range w.Net.open {
		if !st.closed {
			st.closed = true
			close(st.done)
		}
	}
	// the stores' GC loops look at their context only once per tick
	simrt.SleepFor(6 * time.Minute)
	for _, t := range simrt.S.Tasks {
		if t.Panic != "" && !w.taskPanicReported[t.ID] {
			w.violate("C15", "panic", "background@"+t.PanicAt, -1, "task %s panicked: %s", t.Name, t.Panic)
		}
	}
	for _, t := range simrt.Unfinished() {
		rec.Leaks = append(rec.Leaks, fmt.Sprintf("%s (created at %s) waiting: %s", t.Name, t.Origin, t.Waiting))
	}
}

func finishRecord(w *World, rec *Record, wantLog bool) {
	rec.Violations = w.Viol
	rec.Probes = w.Probes
	rec.Faults = w.Faults
	rec.Notes = append(rec.Notes, w.Notes...)
	rec.NetMsgs = len(w.Net.Log)
	rec.Ops = w.Ops
	for s := range w.shapes {
		rec.Shapes = append(rec.Shapes, s)
	}
	sort.Strings(rec.Shapes)
	evs := simrt.MergedLog()
	h := sha256.New()
	for _, e := range evs {
		fmt.Fprintf(h, "%d|%d|%s|%s\n", e.At, e.Task, e.Kind, e.Info)
	}
	rec.Trace = hex.EncodeToString(h.Sum(nil)[:10])
	rec.Events = len(evs)
	rec.Tasks = len(simrt.S.Tasks)
	st := simrt.FinalStats()
	rec.Sched = map[string]int64{"parks": st.Parks, "yields": st.Yields, "preempts": st.Preempts, "lock_spins": st.LockSpins,
		"lock_acquired": st.LockAcq, "resync_parks": st.AfterWakeParks, "wedges": st.Wedges, "storage_faults": st.FailFired}
	if wantLog {
		for _, e := range evs {
			rec.Log = append(rec.Log, fmt.Sprintf("%12d t%-3d %-8s %s", e.At, e.Task, e.Kind, e.Info))
		}
	}
}

func init() {
	// the truncation backup file is created relative to the working directory
	if d := os.Getenv("SIM_WORKDIR"); d != "" {
		os.Chdir(d)
	}
}
