package harness

import (
	"encoding/hex"
	"errors"
	"fmt"
	"sort"
	"strings"
	"time"

	"github.com/anishathalye/porcupine"

	"github.com/bartossh/Computantis/src/cache"
	"github.com/bartossh/Computantis/src/spice"
	"github.com/bartossh/Computantis/src/transaction"
	"verif.local/simrt"
)

// C17: the awaiting-transaction index (cache.Hippocampus on real bigcache) against a map
// model: sequentially step by step, and under seeded interleavings of concurrent callers
// (the cache package is instrumented: every bigcache call is a preemption point).

type c17op struct {
	Kind   string `json:"kind"` // save, remove, read
	Trx    int    `json:"trx"`
	Addr   int    `json:"addr"` // wallet index used as caller/queried address
	Client int    `json:"client"`
	Call   int64  `json:"call"`
	Ret    int64  `json:"ret"`
	Out    string `json:"out"`
}

type c17model struct {
	present map[int]bool
	savedAt map[int]int64
}

func c17outcome(err error) string {
	switch {
	case err == nil:
		return "ok"
	case errors.Is(err, cache.ErrTrxAlreadyExists):
		return "exists"
	case errors.Is(err, cache.ErrTransactionNotFound):
		return "notfound"
	case errors.Is(err, cache.ErrUnauthorized):
		return "unauthorized"
	}
	return "error:" + shortErr(err.Error())
}

func cache17Scenario(w *World, p *Plan, rec *Record) {
	r := newPRNG(p.Seed ^ 0xC17)
	h, err := cache.New(256, 16)
	if err != nil {
		rec.Infra = "cache.New: " + err.Error()
		return
	}
	defer h.Close()
	life, _ := cache.VerifWindows()
	nw := len(w.Wallets)
	// a pool of transactions over few wallets so that addresses are shared
	ntrx := 3 + r.Intn(8)
	trxs := make([]transaction.Transaction, ntrx)
	iss := make([]int, ntrx)
	rcv := make([]int, ntrx)
	for i := range trxs {
		iss[i], rcv[i] = r.Intn(nw), r.Intn(nw)
		if r.Chance(0.85) {
			for rcv[i] == iss[i] {
				rcv[i] = r.Intn(nw)
			}
		}
		t, err := transaction.New("contract", spice.Melange{Currency: uint64(r.Intn(5))}, r.Bytes(1+r.Intn(40)), w.WAddr[rcv[i]], w.Wallets[iss[i]])
		if err != nil {
			rec.Infra = "transaction.New: " + err.Error()
			return
		}
		trxs[i] = t
		simrt.SleepFor(time.Millisecond)
	}
	idxOf := map[Hash]int{}
	for i := range trxs {
		idxOf[trxs[i].Hash] = i
	}
	dupListed := false
	listing := func(addr int) (string, error) {
		ts, err := h.ReadTransactions(w.WAddr[addr])
		if err != nil && !errors.Is(err, cache.ErrTransactionNotFound) {
			return "", err
		}
		set := map[int]bool{}
		for _, t := range ts {
			if i, ok := idxOf[t.Hash]; ok {
				if set[i] {
					dupListed = true // one awaiting transaction, listed twice for the same address
				}
				set[i] = true
			} else {
				set[-1] = true
			}
		}
		var ks []int
		for k := range set {
			ks = append(ks, k)
		}
		sort.Ints(ks)
		return fmt.Sprint(ks), nil
	}
	m := &c17model{present: map[int]bool{}, savedAt: map[int]int64{}}
	subset := func(x, y string) bool { // both are fmt.Sprint of sorted []int
		in := map[string]bool{}
		for _, f := range strings.Fields(strings.Trim(y, "[]")) {
			in[f] = true
		}
		for _, f := range strings.Fields(strings.Trim(x, "[]")) {
			if !in[f] {
				return false
			}
		}
		return true
	}
	expect := func(addr int) (must, may string) {
		var a, b []int
		now := simrt.Now()
		for i := 0; i < ntrx; i++ {
			if !m.present[i] || (iss[i] != addr && rcv[i] != addr) {
				continue
			}
			b = append(b, i)
			if now-m.savedAt[i] < int64(life) {
				a = append(a, i)
			}
		}
		return fmt.Sprint(a), fmt.Sprint(b)
	}
	checkAll := func(where string) {
		for a := 0; a < nw; a++ {
			got, err := listing(a)
			if err != nil {
				w.violate("C17", "listing", "listing-failed", -1, "%s: address %d: %v", where, a, err)
				continue
			}
			must, may := expect(a)
			if !subset(must, got) || !subset(got, may) {
				cause := "listing-invents-an-entry"
				if !subset(must, got) {
					cause = "saved-transaction-missing-from-listing"
				}
				w.violate("C17", "listing", cause+":"+where, -1, "address w%d lists %s, model %s (not yet expired: %s)", a, got, may, must)
			}
		}
	}
	apply := func(o *c17op) {
		switch o.Kind {
		case "save":
			t := trxs[o.Trx]
			o.Out = c17outcome(h.SaveAwaitedTransaction(&t))
		case "remove":
			_, err := h.RemoveAwaitedTransaction(trxs[o.Trx].Hash, w.WAddr[o.Addr])
			o.Out = c17outcome(err)
		case "read":
			l, err := listing(o.Addr)
			if err != nil {
				o.Out = "error:" + shortErr(err.Error())
			} else {
				o.Out = l
			}
		case "balance":
			// the cached-balance calls of the same cache, with the strings a client controls: a wallet address,
			// or the text of a cache key of the awaiting index (a transfer's receiver address is free text)
			key := w.WAddr[o.Addr]
			switch o.Client % 3 {
			case 1:
				key = "trx-" + hex.EncodeToString(trxs[o.Trx].Hash[:])
			case 2:
				key = "address-" + w.WAddr[o.Addr]
			}
			switch o.Trx % 3 {
			case 0:
				h.SaveBalance(key, spice.Melange{Currency: 7})
			case 1:
				h.ReadBalance(key)
			default:
				h.RemoveBalance(key)
			}
			o.Out = "done"
			w.probe("c17-balance-cache-calls")
		}
	}
	genOp := func() c17op {
		o := c17op{Trx: r.Intn(ntrx)}
		if r.Chance(0.12) {
			o.Kind, o.Addr, o.Client = "balance", r.Intn(nw), r.Intn(3)
			return o
		}
		switch x := r.Intn(10); {
		case x < 5:
			o.Kind = "save"
		case x < 8:
			o.Kind = "remove"
			switch r.Intn(4) {
			case 0:
				o.Addr = iss[o.Trx]
			case 1:
				o.Addr = r.Intn(nw)
			default:
				o.Addr = rcv[o.Trx]
			}
		default:
			o.Kind = "read"
			o.Addr = r.Intn(nw)
		}
		return o
	}
	var sample []c17op
	if p.Cfg.PreemptP == 0 {
		// sequential: every step is compared with the model
		nops := 10 + r.Intn(40)
		// a listing is itself an operation of the cache (it prunes stale index entries): half of the runs
		// compare all listings after every step, the other half only now and then, so that states which
		// only exist between two reads are reached too
		lazy := r.Chance(0.5)
		for k := 0; k < nops; k++ {
			if r.Chance(0.05) {
				d := time.Duration(r.Intn(int(life/time.Second)*2)) * time.Second
				simrt.SleepFor(d)
				w.fault("clock-advance")
			}
			o := genOp()
			apply(&o)
			simrt.Logf("op", "%s t%d a%d -> %s", o.Kind, o.Trx, o.Addr, o.Out)
			if len(sample) < 10 {
				sample = append(sample, o)
			}
			w.probe("c17-sequential-ops")
			expired := func(i int) bool { return simrt.Now()-m.savedAt[i] >= int64(life) }
			switch o.Kind {
			case "save":
				switch {
				case m.present[o.Trx] && !expired(o.Trx):
					if o.Out != "exists" {
						w.violate("C17", "save", "second-save-not-refused", -1, "trx %d: %s", o.Trx, o.Out)
					}
				case o.Out == "ok":
					m.present[o.Trx], m.savedAt[o.Trx] = true, simrt.Now()
				case o.Out == "exists" && m.present[o.Trx]:
				default:
					w.violate("C17", "save", "save-failed", -1, "trx %d: %s", o.Trx, o.Out)
				}
			case "remove":
				switch {
				case !m.present[o.Trx]:
					if o.Out == "ok" {
						w.violate("C17", "remove", "removed-what-was-not-saved", -1, "trx %d", o.Trx)
					}
				case o.Addr != rcv[o.Trx]:
					if o.Out == "ok" {
						w.violate("C17", "remove", "removed-by-someone-else-than-receiver", -1, "trx %d by w%d (receiver w%d)", o.Trx, o.Addr, rcv[o.Trx])
					}
					if o.Out == "notfound" && expired(o.Trx) {
						m.present[o.Trx] = false
					}
				default:
					if o.Out == "ok" {
						m.present[o.Trx] = false
					} else if expired(o.Trx) {
						// past its lifetime the cache may have evicted the record, or one of its index entries
						// before the record (eviction is per entry): "not found" in either wording, and the
						// transaction is gone for the model either way
						m.present[o.Trx] = false
						w.probe("c17-remove-of-expired-transaction:" + strings.SplitN(o.Out, ":", 2)[0])
					} else {
						w.violate("C17", "remove", "receiver-could-not-remove", -1, "trx %d: %s", o.Trx, o.Out)
					}
				}
			}
			if !lazy || k == nops-1 || r.Chance(0.12) {
				checkAll("sequential")
			}
			if len(w.Viol) > 0 {
				break
			}
		}
		rec.Nontrivial = true
	} else {
		// concurrent: clients run their scripts as tasks; judged at quiescence and by porcupine
		nclients := 2 + r.Intn(4)
		perClient := 2 + r.Intn(3)
		var hist []*c17op
		done := 0
		var seq int64
		for c := 0; c < nclients; c++ {
			script := make([]c17op, perClient)
			for k := range script {
				script[k] = genOp()
				script[k].Client = c
			}
			c := c
			simrt.GoNamed(fmt.Sprintf("client%d", c), func() {
				for k := range script {
					o := &script[k]
					seq++
					o.Call = seq
					apply(o)
					seq++
					o.Ret = seq
					hist = append(hist, o)
					simrt.Logf("op", "c%d %s t%d a%d -> %s", c, o.Kind, o.Trx, o.Addr, o.Out)
				}
				done++
			})
		}
		deadline := simrt.Now() + int64(60*time.Second)
		for done < nclients && simrt.Now() < deadline {
			simrt.SleepFor(time.Millisecond)
		}
		if done < nclients {
			w.violate("C17", "progress", "cache-operation-did-not-return", -1, "%d of %d clients finished", done, nclients)
			return
		}
		// overlap measure: did two operations touching the same address overlap?
		overlap := false
		for i := range hist {
			for j := range hist {
				if i < j && hist[i].Client != hist[j].Client && hist[i].Call < hist[j].Ret && hist[j].Call < hist[i].Ret {
					overlap = true
				}
			}
		}
		if overlap {
			w.probe("c17-overlapping-operations")
		}
		rec.Nontrivial = overlap
		// quiescent oracle: the final listings must be explained by some order of the successful operations.
		// A transaction is listed iff it was saved successfully and not removed successfully afterwards; with
		// at most one successful save and one successful remove per transaction in these short scripts the
		// final state is order independent unless save/remove of the same transaction raced.
		saves, removes := map[int]int{}, map[int]int{}
		for _, o := range hist {
			if o.Out == "ok" && o.Kind == "save" {
				saves[o.Trx]++
			}
			if o.Out == "ok" && o.Kind == "remove" {
				removes[o.Trx]++
				if o.Addr != rcv[o.Trx] {
					w.violate("C17", "remove", "removed-by-someone-else-than-receiver", -1, "trx %d by w%d", o.Trx, o.Addr)
				}
			}
		}
		for i := 0; i < ntrx; i++ {
			m.present[i] = saves[i] > removes[i]
			m.savedAt[i] = simrt.Now()
			if removes[i] > saves[i] {
				w.violate("C17", "remove", "removed-more-often-than-saved", -1, "trx %d saved %d removed %d", i, saves[i], removes[i])
			}
		}
		checkAll("concurrent")
		// linearizability of the short history
		if len(hist) <= 14 {
			res := porcupine.CheckOperationsTimeout(c17Porcupine(ntrx, iss, rcv), c17History(hist), 20*time.Second)
			switch res {
			case porcupine.Illegal:
				w.violate("C17", "linearizability", "history-not-linearizable", -1, "%d operations by %d clients", len(hist), nclients)
			case porcupine.Unknown:
				w.probe("c17-porcupine-inconclusive")
			default:
				w.probe("c17-porcupine-ok")
			}
		}
		for _, o := range hist {
			if len(sample) < 12 {
				sample = append(sample, *o)
			}
		}
	}
	if dupListed {
		w.violate("C17", "listing", "transaction-listed-twice-for-one-address", -1, "a listing returned the same awaiting transaction more than once")
	}
	rec.Sample = map[string]any{"transactions": ntrx, "wallets": nw, "preempt_p": p.Cfg.PreemptP, "ops": sample}
}

type c17in struct {
	Kind string
	Trx  int
	Addr int
}

func c17History(hist []*c17op) []porcupine.Operation {
	var ops []porcupine.Operation
	for _, o := range hist {
		if o.Kind == "balance" {
			continue // not an operation of the awaiting index; it must not affect it either
		}
		ops = append(ops, porcupine.Operation{ClientId: o.Client, Input: c17in{o.Kind, o.Trx, o.Addr}, Call: o.Call, Output: o.Out, Return: o.Ret})
	}
	return ops
}

// c17Porcupine is the sequential map model: state = set of present transactions (as a sorted string).
func c17Porcupine(ntrx int, iss, rcv []int) porcupine.Model {
	has := func(st string, i int) bool { return strings.Contains(st, fmt.Sprintf("<%d>", i)) }
	return porcupine.Model{
		Init: func() interface{} { return "" },
		Step: func(state, input, output interface{}) (bool, interface{}) {
			st := state.(string)
			in := input.(c17in)
			out := output.(string)
			switch in.Kind {
			case "save":
				if has(st, in.Trx) {
					return out == "exists", st
				}
				if out != "ok" {
					return false, st
				}
				parts := append(strings.Fields(st), fmt.Sprintf("<%d>", in.Trx))
				sort.Strings(parts)
				return true, strings.Join(parts, " ")
			case "remove":
				if !has(st, in.Trx) {
					return out == "notfound", st
				}
				if in.Addr != rcv[in.Trx] {
					return out == "unauthorized", st
				}
				if out != "ok" {
					return false, st
				}
				return true, strings.TrimSpace(strings.ReplaceAll(strings.ReplaceAll(st, fmt.Sprintf("<%d>", in.Trx), ""), "  ", " "))
			case "read":
				var ks []int
				for i := 0; i < ntrx; i++ {
					if has(st, i) && (iss[i] == in.Addr || rcv[i] == in.Addr) {
						ks = append(ks, i)
					}
				}
				return out == fmt.Sprint(ks), st
			}
			return false, st
		},
		Equal: func(a, b interface{}) bool { return a.(string) == b.(string) },
	}
}

func init() {
	scenarios["cache17"] = cache17Scenario
	generators["C17"] = func(r *prng, seed uint64, tier string) *Plan {
		cfg := Config{Wallets: 2 + r.Intn(3), Spread: 1 + r.Intn(4)}
		if r.Chance(0.7) {
			cfg.PreemptP = []float64{0.1, 0.3, 0.6}[r.Intn(3)]
		}
		return &Plan{Scenario: "cache17", Cfg: cfg}
	}
	nontrivialRule["C17"] = "one evaluation = one seeded run of the real cache: either a sequential op sequence compared with the map model after every op, or 2-5 concurrent client tasks interleaved at every bigcache call (non-trivial only if two operations of different clients overlapped in the event order); distinct = distinct trace hash"
}
