package harness

import (
	"bufio"
	"context"
	"encoding/json"
	"fmt"
	"os"
	"os/exec"
	"path/filepath"
	"sort"
	"strings"
	"sync"
	"time"
)

// DriveOpts configures one check run (one property, one tier).
type DriveOpts struct {
	Property   string
	Tier       string
	Seed       uint64
	Runs       int
	Workers    int
	ChunkSize  int
	Scratch    string // scratch directory (jobs, outputs, worker cwd)
	Binary     string // the test binary (this program)
	Evidence   string
	Known      string
	Replays    string
	JobTimeout time.Duration
	Budget     time.Duration // wall-clock budget for the exploration phase
	Race       bool
	Manifest   map[string]any
	otherSeed  map[string]uint64
	Base       uint64 // development aid: first run seed (overrides the derivation from Seed)
	Also       string // development aid: also minimise and report violations of these properties (comma separated)
}

// KnownFile is /verif/known_findings.json.
type KnownFile struct {
	Findings []KnownFinding `json:"findings"`
	Fixed    []FixedFinding `json:"fixed"`
}

type KnownFinding struct {
	Property  string `json:"property"`
	Signature string `json:"signature"`
	Summary   string `json:"summary"`
	Witness   string `json:"witness,omitempty"`
	Since     string `json:"since,omitempty"`
}

type FixedFinding struct {
	Property  string `json:"property"`
	Commit    string `json:"commit"`
	Signature string `json:"signature"`
	Summary   string `json:"summary"`
}

// ReplayFile is what a violation is reported as.
type ReplayFile struct {
	Property  string    `json:"property"`
	Signature string    `json:"signature"`
	Violation Violation `json:"violation"`
	Trace     string    `json:"trace_hash"`
	Plan      *Plan     `json:"plan"`
	Minimised bool      `json:"minimised"`
	OrigSteps int       `json:"original_steps"`
	Note      string    `json:"note,omitempty"`
}

type jobResult struct {
	recs   []*Record
	err    error
	stderr string
	seeds  []uint64
}

func (o *DriveOpts) runJob(ctx context.Context, id string, job *Job) jobResult {
	dir := filepath.Join(o.Scratch, "jobs")
	os.MkdirAll(dir, 0o755)
	jf := filepath.Join(dir, id+".job.json")
	of := filepath.Join(dir, id+".out.jsonl")
	ef := filepath.Join(dir, id+".stderr")
	raw, _ := json.Marshal(job)
	os.WriteFile(jf, raw, 0o644)
	// worker cwd (truncation backups, wallet files) lives on tmpfs when there is one
	wd := filepath.Join(o.Scratch, "cwd", id)
	if st, err := os.Stat("/dev/shm"); err == nil && st.IsDir() {
		wd = filepath.Join("/dev/shm", fmt.Sprintf("simcheck-%d", os.Getpid()), id)
	}
	if err := os.MkdirAll(wd, 0o755); err != nil {
		wd = filepath.Join(o.Scratch, "cwd", id)
		os.MkdirAll(wd, 0o755)
	}
	defer os.RemoveAll(wd)
	to := o.JobTimeout
	if to == 0 {
		to = 10 * time.Minute
	}
	cctx, cancel := context.WithTimeout(ctx, to)
	defer cancel()
	cmd := exec.CommandContext(cctx, o.Binary, "-test.run", "^TestWorker$", "-test.timeout", "0", "-sim.job", jf, "-sim.out", of)
	cmd.Env = append(os.Environ(), "SIM_WORKDIR="+wd, "GORACE=halt_on_error=0 log_path="+filepath.Join(dir, id+".race"))
	cmd.Dir = wd
	ferr, _ := os.Create(ef)
	cmd.Stdout = ferr
	cmd.Stderr = ferr
	err := cmd.Run()
	ferr.Close()
	res := jobResult{seeds: job.Seeds}
	f, ferr2 := os.Open(of)
	if ferr2 == nil {
		sc := bufio.NewScanner(f)
		sc.Buffer(make([]byte, 1<<20), 1<<28)
		for sc.Scan() {
			var r Record
			if json.Unmarshal(sc.Bytes(), &r) == nil {
				res.recs = append(res.recs, &r)
			}
		}
		f.Close()
	}
	if err != nil {
		tail, _ := os.ReadFile(ef)
		if len(tail) > 3000 {
			tail = tail[len(tail)-3000:]
		}
		res.stderr = string(tail)
		res.err = err
		if cctx.Err() == context.DeadlineExceeded {
			res.err = fmt.Errorf("worker exceeded %v (watchdog)", to)
		}
	}
	os.Remove(jf)
	os.Remove(of)
	if err == nil {
		os.Remove(ef)
	}
	return res
}

// runPlans evaluates plans in parallel (one process each) and returns records in order.
func (o *DriveOpts) runPlans(plans []*Plan, wantLog bool) []*Record {
	out := make([]*Record, len(plans))
	var wg sync.WaitGroup
	sem := make(chan struct{}, o.Workers)
	for i, p := range plans {
		wg.Add(1)
		sem <- struct{}{}
		go func(i int, p *Plan) {
			defer wg.Done()
			defer func() { <-sem }()
			r := o.runJob(context.Background(), fmt.Sprintf("p%d-%d", time.Now().UnixNano()%1e9, i), &Job{Property: o.Property, Tier: o.Tier, Plans: []*Plan{p}, WantLog: wantLog, WantPlan: true})
			if len(r.recs) > 0 {
				out[i] = r.recs[0]
			} else {
				msg := "worker produced no record"
				if r.err != nil {
					msg += ": " + r.err.Error()
				}
				out[i] = &Record{Seed: p.Seed, Infra: msg}
			}
		}(i, p)
	}
	wg.Wait()
	return out
}

func hasSig(r *Record, sig string) bool {
	if r == nil {
		return false
	}
	for _, v := range r.Violations {
		if v.Signature() == sig {
			return true
		}
	}
	return false
}

func clonePlan(p *Plan) *Plan {
	raw, _ := json.Marshal(p)
	var q Plan
	json.Unmarshal(raw, &q)
	return &q
}

// fixRefs re-targets step references after steps were removed; steps whose referent is gone are dropped.
func withoutSteps(p *Plan, drop map[int]bool) *Plan {
	q := clonePlan(p)
	q.Steps = q.Steps[:0]
	newIdx := map[int]int{}
	for i, s := range p.Steps {
		if drop[i] {
			continue
		}
		if s.Op == "dup" || s.Op == "confirm" || s.Op == "reject" || s.Op == "replay" || s.Op == "resubmit" {
			ni, ok := newIdx[s.Ref]
			if !ok {
				continue
			}
			s.Ref = ni
		}
		newIdx[i] = len(q.Steps)
		q.Steps = append(q.Steps, s)
	}
	return q
}

// minimise is delta debugging over plan steps, then simplification of knobs.
// minimiseOps is delta debugging over the scenario-generated operations (cfg.op_skip).
func (o *DriveOpts) minimiseOps(p *Plan, sig string, ops int, budget int) (*Plan, int) {
	used := 0
	keep := make([]int, 0, ops)
	skipped := map[int]bool{}
	for _, s := range p.Cfg.OpSkip {
		skipped[s] = true
	}
	for i := 0; i < ops; i++ {
		if !skipped[i] {
			keep = append(keep, i)
		}
	}
	mk := func(keep []int) *Plan {
		q := clonePlan(p)
		in := map[int]bool{}
		for _, k := range keep {
			in[k] = true
		}
		q.Cfg.OpSkip = nil
		for i := 0; i < ops; i++ {
			if !in[i] {
				q.Cfg.OpSkip = append(q.Cfg.OpSkip, i)
			}
		}
		return q
	}
	n := 2
	for len(keep) >= 2 && used < budget {
		chunk := (len(keep) + n - 1) / n
		var cands []*Plan
		var kept [][]int
		for start := 0; start < len(keep); start += chunk {
			var k2 []int
			k2 = append(k2, keep[:start]...)
			if start+chunk < len(keep) {
				k2 = append(k2, keep[start+chunk:]...)
			}
			cands = append(cands, mk(k2))
			kept = append(kept, k2)
		}
		recs := o.runPlans(cands, false)
		used += len(cands)
		found := -1
		for i, r := range recs {
			if hasSig(r, sig) {
				found = i
				break
			}
		}
		if found >= 0 {
			keep = kept[found]
			if n > 2 {
				n--
			}
			continue
		}
		if chunk == 1 {
			break
		}
		n *= 2
		if n > len(keep) {
			n = len(keep)
		}
	}
	return mk(keep), used
}

func (o *DriveOpts) minimise(p *Plan, sig string, budget int) (*Plan, int) {
	cur := p
	used := 0
	n := 2
	for len(cur.Steps) >= 2 && used < budget {
		chunk := (len(cur.Steps) + n - 1) / n
		var cands []*Plan
		for start := 0; start < len(cur.Steps); start += chunk {
			drop := map[int]bool{}
			for i := start; i < start+chunk && i < len(cur.Steps); i++ {
				drop[i] = true
			}
			cands = append(cands, withoutSteps(cur, drop))
		}
		recs := o.runPlans(cands, false)
		used += len(cands)
		found := -1
		for i, r := range recs {
			if hasSig(r, sig) {
				found = i
				break
			}
		}
		if found >= 0 {
			cur = cands[found]
			if n > 2 {
				n--
			}
			continue
		}
		if chunk == 1 {
			break
		}
		n *= 2
		if n > len(cur.Steps) {
			n = len(cur.Steps)
		}
	}
	// simplify knobs one at a time
	simpl := []func(c *Config){
		func(c *Config) { c.DropP, c.DupP, c.SpikeP = 0, 0, 0 },
		func(c *Config) { c.PreemptP = 0 },
		func(c *Config) { c.Topology = nil },
		func(c *Config) { c.Trusted = nil },
		func(c *Config) { c.LatJitMS = 0 },
		func(c *Config) { c.CtxCancelOnReturn = false },
	}
	for _, f := range simpl {
		if used >= budget {
			break
		}
		q := clonePlan(cur)
		f(&q.Cfg)
		a, _ := json.Marshal(q.Cfg)
		b, _ := json.Marshal(cur.Cfg)
		if string(a) == string(b) {
			continue
		}
		used++
		if hasSig(o.runPlans([]*Plan{q}, false)[0], sig) {
			cur = q
		}
	}
	// zero delays
	if used < budget {
		q := clonePlan(cur)
		for i := range q.Steps {
			if q.Steps[i].DelayMS > 1 {
				q.Steps[i].DelayMS = 1
			}
		}
		used++
		if hasSig(o.runPlans([]*Plan{q}, false)[0], sig) {
			cur = q
		}
	}
	return cur, used
}

type sigInfo struct {
	sig   string
	count int
	first *Record
	viol  Violation
}

// Drive runs the check and returns the process exit code.
func Drive(o *DriveOpts) int {
	start := time.Now()
	if o.Workers <= 0 {
		o.Workers = 16
	}
	if o.ChunkSize <= 0 {
		o.ChunkSize = 25
	}
	if per := (o.Runs + o.Workers - 1) / o.Workers; per < o.ChunkSize {
		o.ChunkSize = per
		if o.ChunkSize < 1 {
			o.ChunkSize = 1
		}
	}
	var known KnownFile
	if raw, err := os.ReadFile(o.Known); err == nil {
		if err := json.Unmarshal(raw, &known); err != nil {
			fmt.Printf("INFRA: cannot parse %s: %v\n", o.Known, err)
			return 2
		}
	}
	// exploration
	type chunk struct {
		id    int
		seeds []uint64
	}
	var chunks []chunk
	base := o.Seed*1_000_003 + 17
	if o.Base != 0 {
		base = o.Base
	}
	for i := 0; i < o.Runs; i += o.ChunkSize {
		c := chunk{id: len(chunks)}
		for j := i; j < i+o.ChunkSize && j < o.Runs; j++ {
			c.seeds = append(c.seeds, base+uint64(j))
		}
		chunks = append(chunks, c)
	}
	results := make([]jobResult, len(chunks))
	var wg sync.WaitGroup
	sem := make(chan struct{}, o.Workers)
	deadline := time.Time{}
	if o.Budget > 0 {
		deadline = start.Add(o.Budget)
	}
	skipped := 0
	var mu sync.Mutex
	for i, c := range chunks {
		if !deadline.IsZero() && time.Now().After(deadline) {
			skipped += len(chunks) - i
			break
		}
		wg.Add(1)
		sem <- struct{}{}
		go func(i int, c chunk) {
			defer wg.Done()
			defer func() { <-sem }()
			r := o.runJob(context.Background(), fmt.Sprintf("c%d", c.id), &Job{Property: o.Property, Tier: o.Tier, Seeds: c.seeds})
			// a worker that died (watchdog, crash) leaves seeds undone: run the rest in fresh workers
			for attempt := 0; r.err != nil && attempt < 6; attempt++ {
				done := map[uint64]bool{}
				for _, rc := range r.recs {
					done[rc.Seed] = true
				}
				var rest []uint64
				for _, s := range c.seeds {
					if !done[s] {
						rest = append(rest, s)
					}
				}
				if len(rest) == 0 {
					r.err = nil
					break
				}
				if len(r.recs) == 0 || r.recs[len(r.recs)-1].Infra == "" {
					// the worker died without saying on which seed: blame the first undone one
					r.recs = append(r.recs, &Record{Seed: rest[0], Property: o.Property, Infra: fmt.Sprintf("worker died: %v: %s", r.err, lastLines(r.stderr, 6))})
					rest = rest[1:]
				}
				r2 := o.runJob(context.Background(), fmt.Sprintf("c%d-r%d", c.id, attempt), &Job{Property: o.Property, Tier: o.Tier, Seeds: rest})
				r.recs = append(r.recs, r2.recs...)
				r.err, r.stderr = r2.err, r2.stderr
			}
			mu.Lock()
			results[i] = r
			mu.Unlock()
		}(i, c)
	}
	wg.Wait()

	var recs []*Record
	var infra []string
	for _, r := range results {
		recs = append(recs, r.recs...)
		if r.err != nil {
			done := map[uint64]bool{}
			for _, rc := range r.recs {
				done[rc.Seed] = true
			}
			var stuck uint64
			for _, s := range r.seeds {
				if !done[s] {
					stuck = s
					break
				}
			}
			infra = append(infra, fmt.Sprintf("worker failed (%v) at seed %d: %s", r.err, stuck, lastLines(r.stderr, 12)))
		}
	}
	for _, r := range recs {
		if r.Infra != "" {
			infra = append(infra, fmt.Sprintf("seed %d: %s", r.Seed, r.Infra))
		}
	}
	sort.Slice(recs, func(i, j int) bool { return recs[i].Seed < recs[j].Seed })

	// aggregate
	sigs := map[string]*sigInfo{}
	other := map[string]int{}
	otherSeed := map[string]uint64{}
	for _, r := range recs {
		for _, v := range r.Violations {
			s := v.Signature()
			if v.Property != o.Property && !strings.Contains(","+o.Also+",", ","+v.Property+",") {
				other[s]++
				if _, ok := otherSeed[s]; !ok {
					otherSeed[s] = r.Seed
				}
				continue
			}
			si := sigs[s]
			if si == nil {
				si = &sigInfo{sig: s, first: r, viol: v}
				sigs[s] = si
			}
			si.count++
		}
	}
	knownSet := map[string]KnownFinding{}
	for _, k := range known.Findings {
		if k.Property == o.Property || strings.Contains(","+o.Also+",", ","+k.Property+",") {
			knownSet[k.Signature] = k
		}
	}
	var sigList []string
	for s := range sigs {
		sigList = append(sigList, s)
	}
	sort.Strings(sigList)
	exit := 0
	var knownSeen []string
	var violLines []string
	nviol := 0
	for _, s := range sigList {
		si := sigs[s]
		if k, ok := knownSet[s]; ok {
			fmt.Printf("KNOWN-FINDING: property=%s %s (%d runs) %s\n", o.Property, s, si.count, k.Summary)
			knownSeen = append(knownSeen, s)
			continue
		}
		nviol++
		// minimise and write the replay file
		plan := si.first.Plan
		if plan == nil {
			plan = GeneratePlan(o.Property, o.Tier, si.first.Seed)
		}
		orig := 0
		minimised := false
		rf := &ReplayFile{Property: o.Property, Signature: s, Violation: si.viol}
		if plan != nil {
			orig = len(plan.Steps)
			budget := 160
			if nviol > 6 {
				budget = 0 // many signatures at once: report them unminimised rather than spend minutes shrinking each
			}
			mp, _ := o.minimise(plan, s, budget)
			if len(mp.Steps) < orig {
				minimised = true
			}
			if len(plan.Steps) == 0 && si.first.Ops > 1 && budget > 0 {
				orig = si.first.Ops
				mp, _ = o.minimiseOps(mp, s, si.first.Ops, 120)
				if len(mp.Cfg.OpSkip) > 0 {
					minimised = true
				}
			}
			// replay twice in fresh processes: signature and trace hash must repeat
			rr := o.runPlans([]*Plan{mp, mp}, false)
			if !hasSig(rr[0], s) || !hasSig(rr[1], s) {
				rr2 := o.runPlans([]*Plan{plan, plan}, false)
				if hasSig(rr2[0], s) && hasSig(rr2[1], s) {
					mp, rr, minimised = plan, rr2, false
				} else {
					infra = append(infra, fmt.Sprintf("violation %s (seed %d) does not replay; treated as machinery fault", s, si.first.Seed))
					nviol--
					continue
				}
			}
			rf.Plan, rf.Trace = mp, rr[0].Trace
			if rr[0].Trace != rr[1].Trace {
				rf.Note = "trace hashes of two replays differ (violation reproduces; schedule detail is not bit-identical)"
			}
			for _, v := range rr[0].Violations {
				if v.Signature() == s {
					rf.Violation = v
				}
			}
		}
		rf.Minimised, rf.OrigSteps = minimised, orig
		os.MkdirAll(o.Replays, 0o755)
		name := filepath.Join(o.Replays, fmt.Sprintf("%s-%s-seed%d.json", o.Property, sanitize(s), si.first.Seed))
		raw, _ := json.MarshalIndent(rf, "", " ")
		os.WriteFile(name, raw, 0o644)
		line := fmt.Sprintf("VIOLATION property=%s replay=%s", o.Property, name)
		violLines = append(violLines, line)
		fmt.Printf("%s\n  signature: %s\n  detail: %s\n  seen in %d runs, first seed %d\n", line, s, rf.Violation.Detail, si.count, si.first.Seed)
		exit = 1
	}
	os.RemoveAll(filepath.Join("/dev/shm", fmt.Sprintf("simcheck-%d", os.Getpid())))
	wall := time.Since(start).Seconds()
	o.otherSeed = otherSeed
	if err := writeEvidence(o, recs, sigs, other, knownSeen, nviol, infra, skipped, wall); err != nil {
		fmt.Printf("INFRA: cannot write evidence: %v\n", err)
		return 2
	}
	if len(infra) > 0 {
		for _, m := range infra {
			fmt.Printf("INFRA: %s\n", m)
		}
		if exit == 0 {
			return 2
		}
	}
	if len(recs) == 0 {
		fmt.Println("INFRA: no runs completed")
		return 2
	}
	fmt.Printf("%s %s: %d runs, %d distinct traces, %d violations, %d known findings seen, %.1fs\n", o.Property, o.Tier, len(recs), distinctTraces(recs), nviol, len(knownSeen), wall)
	return exit
}

func distinctTraces(recs []*Record) int {
	m := map[string]bool{}
	for _, r := range recs {
		m[r.Trace] = true
	}
	return len(m)
}

func lastLines(s string, n int) string {
	ls := strings.Split(strings.TrimSpace(s), "\n")
	if len(ls) > n {
		ls = ls[len(ls)-n:]
	}
	return strings.Join(ls, " / ")
}

func sanitize(s string) string {
	var b strings.Builder
	for _, c := range s {
		switch {
		case c >= 'a' && c <= 'z', c >= 'A' && c <= 'Z', c >= '0' && c <= '9', c == '-':
			b.WriteRune(c)
		default:
			b.WriteByte('_')
		}
	}
	out := b.String()
	if len(out) > 90 {
		out = out[:90]
	}
	return out
}
