package simrt

import "testing"

func TestGoid(t *testing.T) {
	if !GoidFast() {
		t.Fatal("fast goid not available")
	}
	ch := make(chan [2]uint64)
	for i := 0; i < 10; i++ {
		go func() { ch <- [2]uint64{Goid(), slowGoid()} }()
		v := <-ch
		if v[0] != v[1] || v[0] == 0 {
			t.Fatalf("mismatch %v", v)
		}
	}
}
func BenchmarkGoid(b *testing.B) { for i := 0; i < b.N; i++ { Goid() } }
func BenchmarkSlowGoid(b *testing.B) { for i := 0; i < b.N; i++ { slowGoid() } }
