#include "textflag.h"

// func getg() uintptr
TEXT ·getg(SB),NOSPLIT,$0-8
	MOVQ (TLS), AX
	MOVQ AX, ret+0(FP)
	RET
