// Package simrt is the runtime that instrumented Computantis code calls into.
//
// Outside a simulation (S == nil) every entry point is a passthrough, so the
// instrumented packages behave exactly like the originals.
//
// Inside a simulation (a testing/synctest bubble) it implements the slot scheduler of
// DESIGN.md §2.3: every task owns the residue class (id mod Slot) of the fake clock and
// only ever sleeps to instants of that class, so the bubble wakes exactly one task at a
// time. There is no scheduler goroutine and no synchronisation between tasks in this
// package: all functions are go:norace and all shared state is touched only by the task
// that currently runs.
package simrt

import (
	"fmt"
	"os"
	"runtime"
	"sort"
	"strings"
	"sync"
	"time"
)

// Slot is the width of a scheduling slot in nanoseconds of fake time.
const Slot = int64(1_000_000)

// Event is one entry of a task-local log.
type Event struct {
	At   int64  // fake ns since simulation start
	Task int    // task id
	Seq  int    // per-task sequence
	Kind string // "start","park","lock","wedge","exit", or harness-defined
	Info string
}

// Task is one schedulable goroutine.
type Task struct {
	ID             int
	Name           string
	Parent         int
	rng            uint64
	log            []Event
	seq            int
	Waiting        string // what the task is blocked/spinning on (for wedge reports)
	Started        bool
	Exited         bool
	Wedged         bool
	Killed         bool
	Origin         string // creation site
	Label          string // free label inherited by child tasks (the harness stores the node URL)
	goid           uint64
	sim            *Sim
	parks, awParks int64
	Panic          string // set when the task's function panicked (a real process would have died)
	PanicAt        string // innermost function of the code under test on the panicking stack
}

// Sim is the state of one simulated run.
type Sim struct {
	Seed      uint64
	Epoch     time.Time
	PreemptP  float64 // probability that a Yield parks the task (fine mode); 0 = event mode
	Spread    int     // max slots skipped on a park
	Tasks     []*Task
	Stopping  bool  // set by the harness when the run is over: spinning tasks exit
	LockLimit int64 // fake ns a task may spin on one lock before it is declared wedged
	pendingW  map[*sync.RWMutex]int
	Stats     Stats
	// FailAt decides injected storage errors: site -> remaining successful calls before one failure (-1 never).
	Fail map[string]*FailSpec
	// Hook called (by the running task) at every Yield; used for cancel-after-k style faults.
	OnYield   func(t *Task, site string)
	LogYields bool
	// Sites counts calls per storage call site (when non-nil).
	Sites map[string]int
	// ChanCap, when positive, caps the buffer of every large buffered channel the code under test makes.
	ChanCap int
}

// ChanCap returns the buffer size for a channel the code under test makes with a large literal size.
func ChanCap(n int) int {
	if s := S; s != nil && s.ChanCap > 0 && n > s.ChanCap {
		return s.ChanCap
	}
	return n
}

// FailSpec makes the nth (0-based) call at a site fail once.
type FailSpec struct {
	Nth   int
	Count int
	Fired int
	Err   error
}

// Stats are counters of scheduler activity (measured reach).
type Stats struct {
	Parks, Yields, Preempts, LockSpins, LockAcq, AfterWakeParks, TasksCreated, Wedges, FailFired int64
}

// S is the active simulation, nil outside simulation.
var S *Sim

// current is the task that ran last (written by a task when it wakes from a park).
var current *Task

const tabMask = 1<<20 - 1

var tab [tabMask + 1]*Task

// self returns the task of the calling goroutine, or nil if it is not a task of the
// active simulation.
//
//go:norace
func self() *Task {
	s := S
	if s == nil {
		return nil
	}
	id := Goid()
	t := tab[id&tabMask]
	if t == nil || t.goid != id || t.sim != s {
		return nil
	}
	return t
}

// enter is the common prologue of every entry point: find the calling task and, if some
// other task ran since this one last parked (it was woken by a channel operation, a
// timer or a dependency), park it to its own slot first.
//
//go:norace
func enter() *Task {
	t := self()
	if t == nil {
		return nil
	}
	if current != t {
		t.awParks++
		park(t, 0)
	}
	return t
}

// ErrInjected is the default injected storage error.
var ErrInjected = fmt.Errorf("simrt: injected storage error")

//go:norace
func splitmix(x *uint64) uint64 {
	*x += 0x9E3779B97F4A7C15
	z := *x
	z = (z ^ (z >> 30)) * 0xBF58476D1CE4E5B9
	z = (z ^ (z >> 27)) * 0x94D049BB133111EB
	return z ^ (z >> 31)
}

// Start activates a simulation. Must be called from the bubble's root goroutine, which
// becomes task 1.
//
//go:norace
func Start(seed uint64, preemptP float64, spread int) *Task {
	s := &Sim{Seed: seed, Epoch: time.Now(), PreemptP: preemptP, Spread: spread,
		pendingW: map[*sync.RWMutex]int{}, LockLimit: int64(90 * time.Second), Fail: map[string]*FailSpec{}}
	if s.Spread < 1 {
		s.Spread = 1
	}
	S = s
	root := s.newTask("root", 0, "root")
	root.Started = true
	root.goid = Goid()
	tab[root.goid&tabMask] = root
	current = root
	return root
}

// Stop deactivates the simulation.
//
//go:norace
func Stop() { S = nil; current = nil }

//go:norace
func (s *Sim) newTask(name string, parent int, origin string) *Task {
	id := len(s.Tasks) + 1
	t := &Task{ID: id, Name: name, Parent: parent, Origin: origin, sim: s}
	x := s.Seed ^ (uint64(id) * 0xD1342543DE82EF95)
	splitmix(&x)
	t.rng = x
	s.Tasks = append(s.Tasks, t)
	return t
}

// Now returns fake nanoseconds since the start of the simulation.
//
//go:norace
func Now() int64 {
	if S == nil {
		return 0
	}
	return int64(time.Since(S.Epoch))
}

// Me returns the running task (nil outside simulation).
//
//go:norace
func Me() *Task { return enter() }

// Rand returns the next value of the running task's private stream.
//
//go:norace
func (t *Task) Rand() uint64 { return splitmix(&t.rng) }

// Intn returns a value in [0,n) from the task's stream.
//
//go:norace
func (t *Task) Intn(n int) int {
	if n <= 1 {
		return 0
	}
	return int(t.Rand() % uint64(n))
}

// Log appends to the task-local log.
//
//go:norace
func (t *Task) Log(kind, info string) {
	if t == nil || S == nil {
		return
	}
	t.seq++
	t.log = append(t.log, Event{At: int64(time.Since(S.Epoch)), Task: t.ID, Seq: t.seq, Kind: kind, Info: info})
}

// Logf logs on behalf of the running task.
//
//go:norace
func Logf(kind, format string, args ...any) {
	if t := self(); t != nil {
		t.Log(kind, fmt.Sprintf(format, args...))
	}
}

// park sleeps the task to its slot at least `skip` slots ahead (skip 0: the nearest
// instant >= now in its residue class).
//
//go:norace
func park(t *Task, skip int) {
	s := S
	if s == nil {
		return
	}
	now := int64(time.Since(s.Epoch))
	off := now % Slot
	r := int64(t.ID) % Slot
	d := (r - off + Slot) % Slot
	if d == 0 && skip > 0 {
		skip--
		d = Slot
	}
	d += int64(skip) * Slot
	t.parks++
	if traceParks {
		var pcs [6]uintptr
		n := runtime.Callers(2, pcs[:])
		fr := runtime.CallersFrames(pcs[:n])
		var where []string
		for {
			f, more := fr.Next()
			where = append(where, fmt.Sprintf("%s:%d", f.Function, f.Line))
			if !more {
				break
			}
		}
		t.Log("park", fmt.Sprintf("d=%d %v", d, where))
	}
	if d > 0 {
		time.Sleep(time.Duration(d))
	}
	current = t
}

// traceParks (environment SIMRT_TRACE_PARKS=1, development only) logs every park with its call stack.
var traceParks = os.Getenv("SIMRT_TRACE_PARKS") != ""

// SleepUntil parks the running task until the first instant of its class >= at (fake ns since start).
//
//go:norace
func SleepUntil(at int64) {
	t := Me()
	if t == nil {
		return
	}
	now := Now()
	if at > now {
		d := at - now
		time.Sleep(time.Duration(d))
	}
	park(t, 0)
}

// SleepFor parks the running task for at least d of fake time.
//
//go:norace
func SleepFor(d time.Duration) { SleepUntil(Now() + int64(d)) }

// Go starts f as a new task (or a plain goroutine outside simulation).
//
//go:norace
func Go(f func()) { goNamed("", f, 2) }

// GoNamed is Go with a task name for reports.
//
//go:norace
func GoNamed(name string, f func()) { goNamed(name, f, 2) }

//go:norace
func goNamed(name string, f func(), skip int) {
	s := S
	if s == nil {
		go f()
		return
	}
	parent := enter()
	pid := 0
	if parent != nil {
		pid = parent.ID
	}
	origin := ""
	if _, file, line, ok := runtime.Caller(skip); ok {
		origin = fmt.Sprintf("%s:%d", shortFile(file), line)
	}
	if name == "" {
		name = origin
	}
	t := s.newTask(name, pid, origin)
	if parent != nil {
		t.Label = parent.Label
		parent.Log("go", fmt.Sprintf("%d %s", t.ID, name))
	}
	go taskMain(t, f)
}

//go:norace
func shortFile(f string) string {
	n := 0
	for i := len(f) - 1; i >= 0; i-- {
		if f[i] == '/' {
			n++
			if n == 2 {
				return f[i+1:]
			}
		}
	}
	return f
}

//go:norace
func taskMain(t *Task, f func()) {
	t.goid = Goid()
	tab[t.goid&tabMask] = t
	park(t, 1)
	t.Started = true
	t.Log("start", t.Name)
	defer func() {
		if r := recover(); r != nil {
			t.Panic = fmt.Sprint(r)
			t.PanicAt = PanicOrigin()
			t.Log("panic", t.Panic+" at "+t.PanicAt)
		}
		t.Exited = true
		t.Waiting = ""
		t.Log("exit", "")
	}()
	f()
}

// AfterWake must be called by a task right after a blocking operation completed. If another
// task has run (or is running) since, the task parks to its own slot before touching shared
// state.
//
//go:norace
func AfterWake() { enter() }

// Yield is a preemption point.
//
//go:norace
func Yield(site string) {
	s := S
	if s == nil {
		return
	}
	t := enter()
	if t == nil {
		return
	}
	s.Stats.Yields++
	if s.OnYield != nil {
		s.OnYield(t, site)
	}
	if s.PreemptP <= 0 {
		return
	}
	if float64(t.Rand()>>11)/float64(1<<53) < s.PreemptP {
		s.Stats.Preempts++
		if s.LogYields {
			t.Log("park", site)
		}
		park(t, 1+t.Intn(s.Spread))
	}
}

// Fail returns an injected error if the plan says the call at site must fail now.
//
//go:norace
func Fail(site string) error {
	s := S
	if s == nil || len(s.Fail) == 0 {
		return nil
	}
	fs := s.Fail[site]
	if fs == nil {
		return nil
	}
	n := fs.Count
	fs.Count++
	if n == fs.Nth {
		fs.Fired++
		s.Stats.FailFired++
		Logf("fail", "%s#%d", site, n)
		if fs.Err != nil {
			return fs.Err
		}
		return ErrInjected
	}
	return nil
}

//go:norace
func spinWait(t *Task, what string, start int64) bool {
	s := S
	t.Waiting = what
	s.Stats.LockSpins++
	park(t, 1+t.Intn(s.Spread))
	if s.Stopping {
		t.Killed = true
		t.Log("killed", what)
		runtime.Goexit()
	}
	if Now()-start > s.LockLimit && !t.Wedged {
		t.Wedged = true
		s.Stats.Wedges++
		t.Log("wedge", what)
	}
	return true
}

// Lock acquires m without ever blocking the goroutine on it.
//
//go:norace
func Lock(m *sync.Mutex) {
	t := enter()
	if t == nil {
		m.Lock()
		return
	}
	Yield("lock")
	start := Now()
	for !m.TryLock() {
		spinWait(t, "mutex", start)
	}
	t.Waiting = ""
	S.Stats.LockAcq++
}

//go:norace
func Unlock(m *sync.Mutex) { m.Unlock() }

// WLock acquires the write side; while it waits, new readers are refused (Go's RWMutex
// gives a blocked writer priority over later readers).
//
//go:norace
func WLock(m *sync.RWMutex) {
	t := enter()
	if t == nil {
		m.Lock()
		return
	}
	Yield("wlock")
	start := Now()
	if m.TryLock() {
		S.Stats.LockAcq++
		return
	}
	S.pendingW[m]++
	for !m.TryLock() {
		spinWait(t, "rwmutex.Lock", start)
	}
	S.pendingW[m]--
	t.Waiting = ""
	S.Stats.LockAcq++
}

//go:norace
func WUnlock(m *sync.RWMutex) { m.Unlock() }

//go:norace
func RLock(m *sync.RWMutex) {
	t := enter()
	if t == nil {
		m.RLock()
		return
	}
	Yield("rlock")
	start := Now()
	for S.pendingW[m] > 0 || !m.TryRLock() {
		spinWait(t, "rwmutex.RLock", start)
	}
	t.Waiting = ""
	S.Stats.LockAcq++
}

//go:norace
func RUnlock(m *sync.RWMutex) { m.RUnlock() }

// Recv is an instrumented channel receive.
func Recv[T any](ch <-chan T) T {
	enter()
	v := <-ch
	enter()
	return v
}

// Recv2 is an instrumented two-value channel receive.
func Recv2[T any](ch <-chan T) (T, bool) {
	enter()
	v, ok := <-ch
	enter()
	return v, ok
}

// Send is an instrumented channel send.
func Send[T any](ch chan<- T, v T) {
	enter()
	ch <- v
	enter()
}

// Sleep is an instrumented time.Sleep.
//
//go:norace
func Sleep(d time.Duration) {
	t := enter()
	time.Sleep(d)
	if t != nil {
		park(t, 0)
	}
}

// Pre is a preemption point that can be spliced in front of a method call's receiver.
func Pre[T any](x T, site string) T {
	Yield(site)
	return x
}

// Entry is one key/value pair of a map snapshot.
type Entry[K comparable, V any] struct {
	K K
	V V
}

type ordered interface {
	~int | ~int8 | ~int16 | ~int32 | ~int64 | ~uint | ~uint8 | ~uint16 | ~uint32 | ~uint64 | ~uintptr | ~float32 | ~float64 | ~string
}

// Entries returns the entries of m in an order that is a function of the running task's
// PRNG stream (sorted by key, then permuted). Outside simulation: sorted order.
func Entries[K ordered, V any](m map[K]V) []Entry[K, V] {
	es := make([]Entry[K, V], 0, len(m))
	for k, v := range m {
		es = append(es, Entry[K, V]{k, v})
	}
	sort.Slice(es, func(i, j int) bool { return es[i].K < es[j].K })
	if t := Me(); t != nil {
		for i := len(es) - 1; i > 0; i-- {
			j := t.Intn(i + 1)
			es[i], es[j] = es[j], es[i]
		}
	}
	return es
}

// IfaceKeys returns the keys of an interface-keyed set ordered by the id each key has in
// ids (then permuted by the task's stream). Keys missing from ids sort first.
func IfaceKeys[V any](m map[interface{}]V, ids map[interface{}]string) []interface{} {
	ks := make([]interface{}, 0, len(m))
	for k := range m {
		ks = append(ks, k)
	}
	sort.Slice(ks, func(i, j int) bool { return ids[ks[i]] < ids[ks[j]] })
	if t := Me(); t != nil {
		for i := len(ks) - 1; i > 0; i-- {
			j := t.Intn(i + 1)
			ks[i], ks[j] = ks[j], ks[i]
		}
	}
	return ks
}

// MergedLog returns all task logs merged by (time, task, seq).
//
//go:norace
func MergedLog() []Event {
	s := S
	if s == nil {
		return nil
	}
	var all []Event
	for _, t := range s.Tasks {
		all = append(all, t.log...)
	}
	sort.Slice(all, func(i, j int) bool {
		a, b := all[i], all[j]
		if a.At != b.At {
			return a.At < b.At
		}
		if a.Task != b.Task {
			return a.Task < b.Task
		}
		return a.Seq < b.Seq
	})
	return all
}

// FinalStats sums the per-task counters into the run's statistics.
//
//go:norace
func FinalStats() Stats {
	s := S
	if s == nil {
		return Stats{}
	}
	st := s.Stats
	st.TasksCreated = int64(len(s.Tasks))
	for _, t := range s.Tasks {
		st.Parks += t.parks
		st.AfterWakeParks += t.awParks
	}
	return st
}

// Unfinished lists tasks that have started (or were created) and not exited.
//
//go:norace
func Unfinished() []*Task {
	s := S
	if s == nil {
		return nil
	}
	var out []*Task
	for _, t := range s.Tasks {
		if !t.Exited && t.ID != 1 {
			out = append(out, t)
		}
	}
	return out
}

// DB wraps a badger Update/View call: a preemption point, then an optional injected
// failure (the call is not executed at all, as with a conflict or a full disk), then the
// real call. After the call the task re-synchronises, because the store's own goroutines
// may have needed fake time to pass.
func DB[F any](site string, m func(F) error, fn F) error {
	Yield(site)
	if s := S; s != nil {
		if s.Sites != nil {
			s.Sites[site]++
		}
		if err := Fail(site); err != nil {
			return err
		}
	}
	err := m(fn)
	enter()
	return err
}

// PanicOrigin must be called from a deferred function that recovered a panic: it returns
// the innermost function on the panicking stack that belongs to the code under test
// (not the runtime, not simrt, not the harness).
func PanicOrigin() string {
	pcs := make([]uintptr, 64)
	n := runtime.Callers(2, pcs)
	frames := runtime.CallersFrames(pcs[:n])
	first := ""
	for {
		f, more := frames.Next()
		fn := f.Function
		if strings.Contains(fn, "Computantis/src/") || strings.Contains(fn, "heimdalr/dag") {
			if i := strings.LastIndex(fn, "/"); i >= 0 {
				fn = fn[i+1:]
			}
			return fn
		}
		if first == "" && fn != "" && !strings.HasPrefix(fn, "runtime.") && !strings.Contains(fn, "simrt.") {
			first = fn
		}
		if !more {
			break
		}
	}
	if i := strings.LastIndex(first, "/"); i >= 0 {
		first = first[i+1:]
	}
	return first
}
