module verif.local/simrt

go 1.21
