package simrt

import (
	"runtime"
	"unsafe"
)

func getg() uintptr

var goidOffset uintptr = ^uintptr(0)

//go:norace
func slowGoid() uint64 {
	var buf [64]byte
	n := runtime.Stack(buf[:], false)
	// "goroutine 123 ["
	var id uint64
	for i := len("goroutine "); i < n; i++ {
		c := buf[i]
		if c < '0' || c > '9' {
			break
		}
		id = id*10 + uint64(c-'0')
	}
	return id
}

//go:norace
//go:nocheckptr
func candidates() map[uintptr]bool {
	id := slowGoid()
	g := getg()
	c := map[uintptr]bool{}
	for off := uintptr(0); off < 512; off += 8 {
		if *(*uint64)(unsafe.Pointer(g + off)) == id {
			c[off] = true
		}
	}
	return c
}

func init() {
	a := candidates()
	ch := make(chan map[uintptr]bool)
	for i := 0; i < 3; i++ {
		go func() { ch <- candidates() }()
		b := <-ch
		for k := range a {
			if !b[k] {
				delete(a, k)
			}
		}
	}
	if len(a) == 1 {
		for k := range a {
			goidOffset = k
		}
	}
}

// Goid returns the current goroutine's id.
//
//go:norace
//go:nocheckptr
func Goid() uint64 {
	if goidOffset != ^uintptr(0) {
		return *(*uint64)(unsafe.Pointer(getg() + goidOffset))
	}
	return slowGoid()
}

// GoidFast reports whether the fast path is in use (for evidence/self-test).
func GoidFast() bool { return goidOffset != ^uintptr(0) }
