// Command simc instruments a scratch copy of Computantis (and of heimdalr/dag) for the
// deterministic simulator: see DESIGN.md §2.2. It never touches /repo.
package main

import (
	"strconv"
	"bytes"
	"flag"
	"fmt"
	"go/ast"
	"go/format"
	"go/token"
	"go/types"
	"os"
	"path/filepath"
	"sort"
	"strings"

	"golang.org/x/tools/go/ast/astutil"
	"golang.org/x/tools/go/packages"
)

const simrtPath = "verif.local/simrt"

var knobNames = map[string]bool{"initialThroughput": true, "truncateDiff": true, "maxArraySize": true, "maxRepeats": true, "truncateVrxTopMark": true}

type stats struct {
	gos, sends, recvs, selects, rangeChan, rangeMap, rangeIface, locks, dbcalls, pre, sleeps, entry, knobs, seams, skipped int
}

var total stats
var warnings []string

func warnf(format string, a ...any) { warnings = append(warnings, fmt.Sprintf(format, a...)) }

func main() {
	src := flag.String("src", "", "scratch copy of /repo/src")
	dagDir := flag.String("dag", "", "scratch copy of heimdalr/dag")
	pkgs := flag.String("pkgs", "accountant,cache,gossip,notaryserver,webhooksserver,webhooks,pipe,dataprovider", "packages under src to instrument")
	tags := flag.String("tags", "verif", "build tags")
	flag.Parse()
	if *src == "" {
		fmt.Fprintln(os.Stderr, "simc: -src required")
		os.Exit(2)
	}
	var pats []string
	for _, p := range strings.Split(*pkgs, ",") {
		pats = append(pats, "./"+p)
	}
	if err := run(*src, pats, *tags, false); err != nil {
		fmt.Fprintln(os.Stderr, "simc:", err)
		os.Exit(2)
	}
	if *dagDir != "" {
		if err := run(*dagDir, []string{"."}, "", true); err != nil {
			fmt.Fprintln(os.Stderr, "simc:", err)
			os.Exit(2)
		}
	}
	fmt.Printf("simc: go=%d send=%d recv=%d select=%d rangechan=%d rangemap=%d rangeiface=%d lock=%d dbcall=%d pre=%d sleep=%d entry=%d knobs=%d seams=%d skipped=%d\n",
		total.gos, total.sends, total.recvs, total.selects, total.rangeChan, total.rangeMap, total.rangeIface, total.locks, total.dbcalls, total.pre, total.sleeps, total.entry, total.knobs, total.seams, total.skipped)
	for _, w := range warnings {
		fmt.Println("simc: warning:", w)
	}
}

func run(dir string, pats []string, tags string, isDag bool) error {
	cfg := &packages.Config{
		Mode: packages.NeedName | packages.NeedFiles | packages.NeedCompiledGoFiles | packages.NeedSyntax | packages.NeedTypes | packages.NeedTypesInfo | packages.NeedImports,
		Dir:  dir,
		Env:  os.Environ(),
	}
	if tags != "" {
		cfg.BuildFlags = []string{"-tags=" + tags}
	}
	ps, err := packages.Load(cfg, pats...)
	if err != nil {
		return err
	}
	for _, p := range ps {
		if len(p.Errors) > 0 {
			return fmt.Errorf("package %s: %v", p.PkgPath, p.Errors[0])
		}
		in := &instr{pkg: p, isDag: isDag, short: filepath.Base(p.PkgPath)}
		in.hasSeam = p.Types.Scope().Lookup("verifGrpcDial") != nil
		for i, f := range p.Syntax {
			name := p.CompiledGoFiles[i]
			if strings.HasSuffix(name, "_test.go") {
				continue
			}
			in.file(f)
			if in.changed {
				astutil.AddNamedImport(p.Fset, f, "simrt", simrtPath)
				var buf bytes.Buffer
				if err := format.Node(&buf, p.Fset, f); err != nil {
					return fmt.Errorf("%s: %v", name, err)
				}
				if err := os.WriteFile(name, buf.Bytes(), 0o644); err != nil {
					return err
				}
			}
		}
		if len(in.knobs) > 0 {
			if err := in.writeKnobFile(filepath.Dir(p.CompiledGoFiles[0]), p.Name); err != nil {
				return err
			}
		}
	}
	return nil
}

type instr struct {
	pkg     *packages.Package
	isDag   bool
	short   string
	hasSeam bool
	changed bool
	n       int
	knobs   []string
	curFunc string
	siteN   map[string]int
	recvDAG string // name of *DAG receiver in current func (dag package)
}

func (in *instr) fresh(prefix string) string {
	in.n++
	return fmt.Sprintf("__%s%d", prefix, in.n)
}

func sel(x, name string) *ast.SelectorExpr {
	return &ast.SelectorExpr{X: ast.NewIdent(x), Sel: ast.NewIdent(name)}
}

func call(fun ast.Expr, args ...ast.Expr) *ast.CallExpr { return &ast.CallExpr{Fun: fun, Args: args} }

func strLit(s string) *ast.BasicLit {
	return &ast.BasicLit{Kind: token.STRING, Value: fmt.Sprintf("%q", s)}
}

func (in *instr) typeOf(e ast.Expr) types.Type { return in.pkg.TypesInfo.TypeOf(e) }

func namedPath(t types.Type) (string, string) {
	if p, ok := t.(*types.Pointer); ok {
		t = p.Elem()
	}
	if a, ok := t.(*types.Alias); ok {
		t = types.Unalias(a)
	}
	n, ok := t.(*types.Named)
	if !ok || n.Obj() == nil || n.Obj().Pkg() == nil {
		return "", ""
	}
	return n.Obj().Pkg().Path(), n.Obj().Name()
}

func isPointer(t types.Type) bool { _, ok := t.(*types.Pointer); return ok }

func (in *instr) site(kind string) string {
	if in.siteN == nil {
		in.siteN = map[string]int{}
	}
	k := in.short + "." + in.curFunc + ":" + kind
	n := in.siteN[k]
	in.siteN[k] = n + 1
	return fmt.Sprintf("%s#%d", k, n)
}

func (in *instr) file(f *ast.File) {
	in.changed = false
	// knobs: const -> var
	for _, d := range f.Decls {
		gd, ok := d.(*ast.GenDecl)
		if !ok || gd.Tok != token.CONST || in.isDag {
			continue
		}
		has := false
		iota_ := false
		for _, s := range gd.Specs {
			vs := s.(*ast.ValueSpec)
			for _, n := range vs.Names {
				if knobNames[n.Name] {
					has = true
				}
			}
			if len(vs.Values) == 0 {
				iota_ = true
			}
		}
		if !has || iota_ {
			continue
		}
		ok2 := true
		for _, s := range gd.Specs {
			vs := s.(*ast.ValueSpec)
			for _, n := range vs.Names {
				obj := in.pkg.TypesInfo.Defs[n]
				if obj == nil {
					ok2 = false
					continue
				}
				b, isB := obj.Type().Underlying().(*types.Basic)
				if !isB || b.Info()&types.IsInteger == 0 {
					ok2 = false
				}
			}
		}
		if !ok2 {
			warnf("knob block in %s not integer-only; left as const", in.short)
			continue
		}
		gd.Tok = token.VAR
		for _, s := range gd.Specs {
			vs := s.(*ast.ValueSpec)
			for _, n := range vs.Names {
				// untyped integer constants become typed ints explicitly
				if vs.Type == nil {
					obj := in.pkg.TypesInfo.Defs[n]
					if b, ok := obj.Type().Underlying().(*types.Basic); ok && b.Info()&types.IsUntyped != 0 {
						vs.Type = ast.NewIdent("int")
					}
				}
				if knobNames[n.Name] {
					in.knobs = append(in.knobs, n.Name)
					total.knobs++
				}
			}
		}
		in.changed = true
	}

	for _, d := range f.Decls {
		fd, ok := d.(*ast.FuncDecl)
		if !ok || fd.Body == nil {
			continue
		}
		in.curFunc = fd.Name.Name
		in.recvDAG = ""
		if in.isDag && fd.Recv != nil && len(fd.Recv.List) == 1 && len(fd.Recv.List[0].Names) == 1 {
			if _, n := namedPath(in.typeOf(fd.Recv.List[0].Type)); n == "DAG" {
				in.recvDAG = fd.Recv.List[0].Names[0].Name
			}
		}
		in.funcBody(fd.Body)
		if !in.isDag && fd.Name.IsExported() && !strings.HasPrefix(fd.Name.Name, "Verif") {
			y := &ast.ExprStmt{X: call(sel("simrt", "Yield"), strLit(in.short+"."+fd.Name.Name))}
			fd.Body.List = append([]ast.Stmt{y}, fd.Body.List...)
			total.entry++
			in.changed = true
		}
	}
}

func (in *instr) funcBody(body *ast.BlockStmt) {
	skip := map[ast.Node]bool{}
	// nodes that are the communication of a select clause stay as they are
	ast.Inspect(body, func(n ast.Node) bool {
		if cc, ok := n.(*ast.CommClause); ok && cc.Comm != nil {
			switch c := cc.Comm.(type) {
			case *ast.SendStmt:
				skip[c] = true
			case *ast.ExprStmt:
				skip[c.X] = true
				if p, ok := c.X.(*ast.ParenExpr); ok {
					skip[p.X] = true
				}
			case *ast.AssignStmt:
				skip[c] = true
				if len(c.Rhs) == 1 {
					skip[c.Rhs[0]] = true
				}
			}
		}
		// function literals handed to third-party code run without preemption points
		return true
	})
	noYield := map[ast.Node]bool{}
	ast.Inspect(body, func(n ast.Node) bool {
		if ce, ok := n.(*ast.CallExpr); ok {
			if s, ok := ce.Fun.(*ast.SelectorExpr); ok {
				if p, _ := namedPath(in.typeOfOrNil(s.X)); p != "" && !strings.HasPrefix(p, "github.com/bartossh/Computantis") && p != "github.com/heimdalr/dag" && p != "sync" && p != "context" {
					for _, a := range ce.Args {
						if fl, ok := a.(*ast.FuncLit); ok {
							ast.Inspect(fl, func(m ast.Node) bool { noYield[m] = true; return true })
						}
					}
				}
			}
		}
		return true
	})

	astutil.Apply(body, nil, func(c *astutil.Cursor) bool {
		n := c.Node()
		if skip[n] {
			return true
		}
		switch x := n.(type) {
		case *ast.GoStmt:
			c.Replace(in.goStmt(x))
		case *ast.DeferStmt:
			// "defer simrt.Pre(r, site).M(args)" would run the preemption point when the defer statement is
			// reached; the point belongs in front of the deferred call itself. Receiver and arguments keep
			// being evaluated at the defer statement:
			//   defer func() func() { r := R; a0 := A0; return func() { simrt.Pre(r, site).M(a0) } }()()
			if se, ok := x.Call.Fun.(*ast.SelectorExpr); ok && x.Call.Ellipsis == token.NoPos {
				if pc, ok := se.X.(*ast.CallExpr); ok && len(pc.Args) == 2 {
					if ps, ok := pc.Fun.(*ast.SelectorExpr); ok && ps.Sel.Name == "Pre" {
						if id, ok := ps.X.(*ast.Ident); ok && id.Name == "simrt" {
							var setup []ast.Stmt
							rv := ast.NewIdent("__dr")
							setup = append(setup, &ast.AssignStmt{Lhs: []ast.Expr{rv}, Tok: token.DEFINE, Rhs: []ast.Expr{pc.Args[0]}})
							var args []ast.Expr
							for i, a := range x.Call.Args {
								av := ast.NewIdent(fmt.Sprintf("__da%d", i))
								setup = append(setup, &ast.AssignStmt{Lhs: []ast.Expr{av}, Tok: token.DEFINE, Rhs: []ast.Expr{a}})
								args = append(args, av)
							}
							inner := &ast.FuncLit{Type: &ast.FuncType{Params: &ast.FieldList{}}, Body: &ast.BlockStmt{List: []ast.Stmt{
								&ast.ExprStmt{X: call(&ast.SelectorExpr{X: call(sel("simrt", "Pre"), rv, pc.Args[1]), Sel: se.Sel}, args...)},
							}}}
							setup = append(setup, &ast.ReturnStmt{Results: []ast.Expr{inner}})
							outer := &ast.FuncLit{Type: &ast.FuncType{Params: &ast.FieldList{}, Results: &ast.FieldList{List: []*ast.Field{{Type: &ast.FuncType{Params: &ast.FieldList{}}}}}}, Body: &ast.BlockStmt{List: setup}}
							x.Call = &ast.CallExpr{Fun: &ast.CallExpr{Fun: outer}}
							in.changed = true
						}
					}
				}
			}
		case *ast.SendStmt:
			c.Replace(&ast.ExprStmt{X: call(sel("simrt", "Send"), x.Chan, x.Value)})
			total.sends++
			in.changed = true
		case *ast.AssignStmt:
			if len(x.Lhs) == 2 && len(x.Rhs) == 1 {
				if u, ok := unparen(x.Rhs[0]).(*ast.UnaryExpr); ok && u.Op == token.ARROW {
					x.Rhs[0] = call(sel("simrt", "Recv2"), u.X)
					total.recvs++
					in.changed = true
				}
			}
		case *ast.UnaryExpr:
			if x.Op == token.ARROW {
				// the two-value form was rewritten at its AssignStmt (post-order visits children first),
				// so handle it here by looking at the parent instead.
				if as, ok := c.Parent().(*ast.AssignStmt); ok && len(as.Lhs) == 2 && len(as.Rhs) == 1 {
					if skip[as] {
						return true
					}
					c.Replace(call(sel("simrt", "Recv2"), x.X))
				} else if vs, ok := c.Parent().(*ast.ValueSpec); ok && len(vs.Names) == 2 && len(vs.Values) == 1 {
					c.Replace(call(sel("simrt", "Recv2"), x.X))
				} else {
					c.Replace(call(sel("simrt", "Recv"), x.X))
				}
				total.recvs++
				in.changed = true
			}
		case *ast.SelectStmt:
			hasDefault := false
			for _, s := range x.Body.List {
				if s.(*ast.CommClause).Comm == nil {
					hasDefault = true
				}
			}
			if !hasDefault {
				for _, s := range x.Body.List {
					cc := s.(*ast.CommClause)
					cc.Body = append([]ast.Stmt{&ast.ExprStmt{X: call(sel("simrt", "AfterWake"))}}, cc.Body...)
				}
				total.selects++
				in.changed = true
			}
		case *ast.RangeStmt:
			if r := in.rangeStmt(x); r != nil {
				c.Replace(r)
			}
		case *ast.CallExpr:
			if r := in.callExpr(x, noYield[x]); r != nil {
				c.Replace(r)
			}
		}
		return true
	})
}

func (in *instr) typeOfOrNil(e ast.Expr) types.Type {
	t := in.pkg.TypesInfo.TypeOf(e)
	if t == nil {
		return types.Typ[types.Invalid]
	}
	return t
}

func unparen(e ast.Expr) ast.Expr {
	for {
		p, ok := e.(*ast.ParenExpr)
		if !ok {
			return e
		}
		e = p.X
	}
}

func (in *instr) goStmt(g *ast.GoStmt) ast.Stmt {
	total.gos++
	in.changed = true
	ce := g.Call
	sig, _ := in.typeOfOrNil(ce.Fun).Underlying().(*types.Signature)
	if len(ce.Args) == 0 && sig != nil && sig.Results().Len() == 0 {
		if fl, ok := ce.Fun.(*ast.FuncLit); ok {
			return &ast.ExprStmt{X: call(sel("simrt", "Go"), fl)}
		}
	}
	var lhs, rhs []ast.Expr
	args := make([]ast.Expr, len(ce.Args))
	for i, a := range ce.Args {
		tv, ok := in.pkg.TypesInfo.Types[a]
		_, isLit := a.(*ast.FuncLit)
		if isLit || (ok && (tv.Value != nil || tv.IsNil())) {
			args[i] = a
			continue
		}
		name := in.fresh("g")
		lhs = append(lhs, ast.NewIdent(name))
		rhs = append(rhs, a)
		args[i] = ast.NewIdent(name)
	}
	inner := &ast.CallExpr{Fun: ce.Fun, Args: args, Ellipsis: ce.Ellipsis}
	if ce.Ellipsis == token.NoPos {
		inner.Ellipsis = token.NoPos
	}
	lit := &ast.FuncLit{Type: &ast.FuncType{Params: &ast.FieldList{}}, Body: &ast.BlockStmt{List: []ast.Stmt{&ast.ExprStmt{X: inner}}}}
	goCall := &ast.ExprStmt{X: call(sel("simrt", "Go"), lit)}
	if len(lhs) == 0 {
		return goCall
	}
	return &ast.BlockStmt{List: []ast.Stmt{&ast.AssignStmt{Lhs: lhs, Tok: token.DEFINE, Rhs: rhs}, goCall}}
}

func isBlank(e ast.Expr) bool {
	if e == nil {
		return true
	}
	id, ok := e.(*ast.Ident)
	return ok && id.Name == "_"
}

func hasCall(e ast.Expr) bool {
	found := false
	ast.Inspect(e, func(n ast.Node) bool {
		if _, ok := n.(*ast.CallExpr); ok {
			found = true
		}
		return !found
	})
	return found
}

func (in *instr) rangeStmt(r *ast.RangeStmt) ast.Stmt {
	t := in.typeOfOrNil(r.X).Underlying()
	switch tt := t.(type) {
	case *types.Chan:
		if hasCall(r.X) {
			warnf("%s.%s: range over channel expression with a call left uninstrumented", in.short, in.curFunc)
			total.skipped++
			return nil
		}
		okName := in.fresh("ok")
		var pre []ast.Stmt
		recv := call(sel("simrt", "Recv2"), r.X)
		if isBlank(r.Key) {
			pre = append(pre, &ast.AssignStmt{Lhs: []ast.Expr{ast.NewIdent("_"), ast.NewIdent(okName)}, Tok: token.DEFINE, Rhs: []ast.Expr{recv}})
		} else if r.Tok == token.DEFINE {
			pre = append(pre, &ast.AssignStmt{Lhs: []ast.Expr{r.Key, ast.NewIdent(okName)}, Tok: token.DEFINE, Rhs: []ast.Expr{recv}})
		} else {
			v := in.fresh("v")
			pre = append(pre, &ast.AssignStmt{Lhs: []ast.Expr{ast.NewIdent(v), ast.NewIdent(okName)}, Tok: token.DEFINE, Rhs: []ast.Expr{recv}})
			defer func() {}()
			pre = append(pre, &ast.AssignStmt{Lhs: []ast.Expr{r.Key}, Tok: token.ASSIGN, Rhs: []ast.Expr{ast.NewIdent(v)}})
		}
		brk := &ast.IfStmt{Cond: &ast.UnaryExpr{Op: token.NOT, X: ast.NewIdent(okName)}, Body: &ast.BlockStmt{List: []ast.Stmt{&ast.BranchStmt{Tok: token.BREAK}}}}
		// the break must come right after the receive, before a possible assignment of the zero value
		list := []ast.Stmt{pre[0], brk}
		list = append(list, pre[1:]...)
		list = append(list, r.Body.List...)
		total.rangeChan++
		in.changed = true
		return &ast.ForStmt{Body: &ast.BlockStmt{List: list}}
	case *types.Map:
		kb, isBasic := tt.Key().Underlying().(*types.Basic)
		if isBasic && kb.Info()&(types.IsOrdered) != 0 {
			e := in.fresh("e")
			var lhs, rhs []ast.Expr
			if !isBlank(r.Key) {
				lhs = append(lhs, r.Key)
				rhs = append(rhs, sel(e, "K"))
			}
			if !isBlank(r.Value) {
				lhs = append(lhs, r.Value)
				rhs = append(rhs, sel(e, "V"))
			}
			nr := &ast.RangeStmt{Tok: token.DEFINE, X: call(sel("simrt", "Entries"), r.X), Body: r.Body}
			if len(lhs) > 0 {
				nr.Key = ast.NewIdent("_")
				nr.Value = ast.NewIdent(e)
				as := &ast.AssignStmt{Lhs: lhs, Tok: r.Tok, Rhs: rhs}
				nr.Body = &ast.BlockStmt{List: append([]ast.Stmt{as}, r.Body.List...)}
			} else {
				nr.Tok = token.ILLEGAL
			}
			total.rangeMap++
			in.changed = true
			return nr
		}
		if in.isDag && in.recvDAG != "" && isBlank(r.Value) && !isBlank(r.Key) {
			if _, ok := tt.Key().Underlying().(*types.Interface); ok {
				nr := &ast.RangeStmt{Key: ast.NewIdent("_"), Value: r.Key, Tok: r.Tok,
					X: call(sel("simrt", "IfaceKeys"), r.X, sel(in.recvDAG, "vertices")), Body: r.Body}
				total.rangeIface++
				in.changed = true
				return nr
			}
		}
		if !in.isDag {
			warnf("%s.%s: range over map with unordered key type %s keeps Go's order", in.short, in.curFunc, tt.Key())
			total.skipped++
		}
	}
	return nil
}

func (in *instr) callExpr(ce *ast.CallExpr, noYield bool) ast.Expr {
	// make(chan T, <large literal>): the buffer size becomes a per-run knob (simrt.ChanCap), so that the
	// behaviour behind a full buffer is reachable with ledgers of simulated size
	if id, ok := ce.Fun.(*ast.Ident); ok && id.Name == "make" && len(ce.Args) == 2 {
		if _, isChan := ce.Args[0].(*ast.ChanType); isChan {
			if lit, ok := ce.Args[1].(*ast.BasicLit); ok && lit.Kind == token.INT {
				if n, err := strconv.Atoi(lit.Value); err == nil && n >= 100 {
					in.changed = true
					total.knobs++
					return &ast.CallExpr{Fun: ce.Fun, Args: []ast.Expr{ce.Args[0], call(sel("simrt", "ChanCap"), lit)}}
				}
			}
		}
		return nil
	}
	s, ok := ce.Fun.(*ast.SelectorExpr)
	if !ok {
		return nil
	}
	// package-level functions
	if id, ok := s.X.(*ast.Ident); ok {
		if pn, ok := in.pkg.TypesInfo.Uses[id].(*types.PkgName); ok {
			path := pn.Imported().Path()
			switch {
			case path == "time" && s.Sel.Name == "Sleep":
				total.sleeps++
				in.changed = true
				return call(sel("simrt", "Sleep"), ce.Args...)
			case in.hasSeam && path == "google.golang.org/grpc" && s.Sel.Name == "Dial":
				total.seams++
				in.changed = true
				return &ast.CallExpr{Fun: ast.NewIdent("verifGrpcDial"), Args: ce.Args, Ellipsis: ce.Ellipsis}
			case in.hasSeam && strings.HasSuffix(path, "/protobufcompiled") && s.Sel.Name == "NewGossipAPIClient":
				total.seams++
				in.changed = true
				return call(ast.NewIdent("verifNewClient"), ce.Args...)
			}
			return nil
		}
	}
	xt := in.typeOfOrNil(s.X)
	path, name := namedPath(xt)
	switch {
	case path == "sync" && (name == "Mutex" || name == "RWMutex"):
		var fn string
		switch s.Sel.Name {
		case "Lock":
			fn = "Lock"
			if name == "RWMutex" {
				fn = "WLock"
			}
		case "Unlock":
			fn = "Unlock"
			if name == "RWMutex" {
				fn = "WUnlock"
			}
		case "RLock":
			fn = "RLock"
		case "RUnlock":
			fn = "RUnlock"
		default:
			return nil
		}
		if selInfo := in.pkg.TypesInfo.Selections[s]; selInfo != nil && len(selInfo.Index()) > 1 {
			warnf("%s.%s: promoted mutex method left uninstrumented", in.short, in.curFunc)
			total.skipped++
			return nil
		}
		arg := s.X
		if !isPointer(xt) {
			arg = &ast.UnaryExpr{Op: token.AND, X: s.X}
		}
		total.locks++
		in.changed = true
		return call(sel("simrt", fn), arg)
	case in.hasSeam && path == "google.golang.org/grpc" && name == "ClientConn" && s.Sel.Name == "Close":
		total.seams++
		in.changed = true
		return call(ast.NewIdent("verifConnClose"), s.X)
	case path == "github.com/dgraph-io/badger/v4" && name == "DB" && (s.Sel.Name == "Update" || s.Sel.Name == "View") && len(ce.Args) == 1:
		if noYield {
			return nil
		}
		total.dbcalls++
		in.changed = true
		return call(sel("simrt", "DB"), strLit(in.site(s.Sel.Name)), s, ce.Args[0])
	case (path == "github.com/dgraph-io/badger/v4" && name == "DB") ||
		(path == "github.com/allegro/bigcache" && name == "BigCache") ||
		(path == "github.com/heimdalr/dag" && name == "DAG" && !in.isDag):
		if noYield {
			return nil
		}
		total.pre++
		in.changed = true
		s.X = call(sel("simrt", "Pre"), s.X, strLit(in.site(s.Sel.Name)))
		return nil
	}
	return nil
}

func (in *instr) writeKnobFile(dir, pkgName string) error {
	sort.Strings(in.knobs)
	var b strings.Builder
	fmt.Fprintf(&b, "// Code generated by simc. DO NOT EDIT.\n\npackage %s\n\n", pkgName)
	b.WriteString("// SimSetKnob lowers a tuning constant for one simulated run; it reports whether the knob exists.\n")
	b.WriteString("func SimSetKnob(name string, v uint64) bool {\n\tswitch name {\n")
	for _, k := range in.knobs {
		obj := in.pkg.Types.Scope().Lookup(k)
		typ := "int"
		if obj != nil {
			if bt, ok := obj.Type().Underlying().(*types.Basic); ok && bt.Info()&types.IsUntyped == 0 {
				typ = bt.Name()
			}
		}
		fmt.Fprintf(&b, "\tcase %q:\n\t\t%s = %s(v)\n\t\treturn true\n", k, k, typ)
	}
	b.WriteString("\t}\n\treturn false\n}\n\n")
	b.WriteString("// SimGetKnob reads a tuning constant.\nfunc SimGetKnob(name string) (uint64, bool) {\n\tswitch name {\n")
	for _, k := range in.knobs {
		fmt.Fprintf(&b, "\tcase %q:\n\t\treturn uint64(%s), true\n", k, k)
	}
	b.WriteString("\t}\n\treturn 0, false\n}\n")
	return os.WriteFile(filepath.Join(dir, "zz_simknobs.go"), []byte(b.String()), 0o644)
}
